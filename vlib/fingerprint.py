"""Library-independent deep snapshots of element trees, values and results.

Never uses the library's __eq__, __repr__ or serializers.  `parent`
back-pointers are excluded (rebound on every call by design, and not observable
through equality, repr or serialization).
"""
from vlib import sut

CLASS_ATTRS = (
    "default", "const", "enum", "required", "description", "properties", "minProperties",
    "maxProperties", "patternProperties", "additionalProperties", "propertyNames", "dependencies",
)
SKIP_ATTRS = {"parent", "_parent"}


def fp_plain(obj):
    """Type-tagged canonical form of plain data (dict order kept)."""
    if isinstance(obj, sut.NotPassed):
        return ("NP",)
    if isinstance(obj, bool):
        return ("b", obj)
    if obj is None:
        return ("n",)
    if isinstance(obj, int):
        return ("i", obj)
    if isinstance(obj, float):
        return ("f", repr(obj))
    if isinstance(obj, str):
        return ("s", obj)
    return None


class _NoSharing(dict):
    """seen-map that never remembers: shared sub-objects are expanded (tree
    view), every node gets index 0; classes are still cut at second visit by
    name to keep recursive models finite."""

    def __contains__(self, key):
        return False

    def __setitem__(self, key, value):
        dict.__setitem__(self, key, 0)

    def __len__(self):
        return 0


def fp_tree(obj):
    """Like fp_config but blind to aliasing (for comparing with a rebuilt copy
    that cannot share sub-objects, e.g. eval(repr(x)))."""
    return fp_config(obj, _NoSharing())


def fp_config(obj, seen=None, depth=0):
    """Snapshot of configuration reachable from an element / class / property."""
    seen = {} if seen is None else seen
    plain = fp_plain(obj)
    if plain is not None:
        return plain
    if depth > 80:
        return ("deep",)
    ident = id(obj)
    if isinstance(obj, (sut.Element, sut._Property)) or isinstance(obj, type):  # pylint: disable=protected-access
        if ident in seen:
            return ("ref", seen[ident])
        seen[ident] = len(seen)
    if isinstance(obj, sut.ObjectMeta):
        attrs = []
        for name in CLASS_ATTRS:
            attrs.append((name, fp_config(getattr(obj, name, sut.NotPassed()), seen, depth + 1)))
        bases = tuple(base.__name__ for base in obj.__mro__[1:] if isinstance(base, sut.ObjectMeta))
        return ("class", seen[ident], obj.__name__, bases, tuple(attrs))
    if isinstance(obj, sut.Element):
        attrs = []
        for name, val in sorted(vars(obj).items()):
            if name in SKIP_ATTRS:
                continue
            if name.startswith("_") and name != "_properties":
                # private attributes are not configuration: a correct, properly
                # invalidated cache must not raise an alarm (behavioural oracles
                # - repeatability, fresh-twin comparison - judge those)
                continue
            attrs.append((name, fp_config(val, seen, depth + 1)))
        return ("el", seen[ident], type(obj).__name__, tuple(attrs))
    if isinstance(obj, sut._Property):  # pylint: disable=protected-access
        return ("prop", seen[ident], obj.name, obj.source, fp_plain(obj.required) or repr(obj.required),
                fp_config(obj.element, seen, depth + 1))
    if isinstance(obj, dict):
        return ("dict", type(obj).__name__ if isinstance(obj, sut._PropertyDict) else "dict",  # pylint: disable=protected-access
                tuple((key, fp_config(val, seen, depth + 1)) for key, val in obj.items()))
    if isinstance(obj, (list, tuple)):
        return ("list", tuple(fp_config(val, seen, depth + 1) for val in obj))
    return ("other", type(obj).__name__, repr(obj)[:200])


def fp_parents(obj, seen=None, out=None, depth=0):
    """Diagnostic only: who each property's parent is."""
    seen = set() if seen is None else seen
    out = [] if out is None else out
    if id(obj) in seen or depth > 60:
        return out
    seen.add(id(obj))
    if isinstance(obj, sut._Property):  # pylint: disable=protected-access
        out.append((obj.name, id(obj.parent)))
        fp_parents(obj.element, seen, out, depth + 1)
    elif isinstance(obj, sut.Element):
        for val in (vars(obj).values() if not isinstance(obj, type) else
                    [getattr(obj, name, None) for name in CLASS_ATTRS]):
            fp_parents(val, seen, out, depth + 1)
    elif isinstance(obj, dict):
        for val in obj.values():
            fp_parents(val, seen, out, depth + 1)
    elif isinstance(obj, (list, tuple)):
        for val in obj:
            fp_parents(val, seen, out, depth + 1)
    return out


def fp_value(obj, depth=0):
    """Snapshot of a JSON input value (dict order ignored, types tagged)."""
    plain = fp_plain(obj)
    if plain is not None:
        return plain
    if depth > 200:
        return ("deep",)
    if isinstance(obj, dict):
        return ("dict", tuple(sorted(((str(k), fp_value(v, depth + 1)) for k, v in obj.items()))))
    if isinstance(obj, (list, tuple)):
        return ("list", tuple(fp_value(v, depth + 1) for v in obj))
    return ("other", type(obj).__name__, repr(obj)[:200])


def fp_result(obj, depth=0):
    """Snapshot of a validation result (models by class name + contents)."""
    plain = fp_plain(obj)
    if plain is not None:
        return plain
    if depth > 200:
        return ("deep",)
    if isinstance(obj, sut.Object):
        inner = getattr(obj, "_dict", None)
        attrs = []
        for name in type(obj).properties or {}:
            try:
                attrs.append((name, fp_result(getattr(obj, name), depth + 1)))
            except AttributeError:
                attrs.append((name, ("missing",)))
        return ("model", type(obj).__name__,
                fp_result(inner, depth + 1) if isinstance(inner, dict) else ("nodict",), tuple(attrs))
    if isinstance(obj, dict):
        return ("anon" if isinstance(obj, sut._AnonymousObject) else "dict",  # pylint: disable=protected-access
                tuple(sorted(((str(k), fp_result(v, depth + 1)) for k, v in obj.items()))))
    if isinstance(obj, (list, tuple)):
        return ("list", tuple(fp_result(v, depth + 1) for v in obj))
    if isinstance(obj, type):
        return ("type", obj.__name__)
    return ("other", type(obj).__name__, repr(obj)[:200])
