"""Executable model of JSON Schema Draft 6 validation.

Written from the specification, operating on raw JSON only.  It never imports
statham.  The documented deviations of statham are explicit switches:

  int_is_python_int        (always on) 1.0 is not an integer
  formats                  name -> predicate; only those are checked
  required_default_waiver  a required property whose schema declares a default
                           may be omitted (evaluated both ways by `verdicts`)
"""
import re
import urllib.parse
from fractions import Fraction

UUID_RE = re.compile(
    r"\A[0-9a-fA-F]{8}-[0-9a-fA-F]{4}-[0-9a-fA-F]{4}-[0-9a-fA-F]{4}-[0-9a-fA-F]{12}\Z"
)
RFC3339_RE = re.compile(
    r"\A(\d{4})-(\d{2})-(\d{2})[Tt](\d{2}):(\d{2}):(\d{2})(\.\d+)?([Zz]|[+-]\d{2}:\d{2})\Z"
)


def is_rfc3339(text):
    match = RFC3339_RE.match(text)
    if not match:
        return False
    year, month, day, hour, minute, second = (int(match.group(i)) for i in range(1, 7))
    if not 1 <= month <= 12:
        return False
    leap = year % 4 == 0 and (year % 100 != 0 or year % 400 == 0)
    mdays = [31, 29 if leap else 28, 31, 30, 31, 30, 31, 31, 30, 31, 30, 31]
    if not 1 <= day <= mdays[month - 1]:
        return False
    if hour > 23 or minute > 59 or second > 60:
        return False
    offset = match.group(8)
    if offset not in ("Z", "z"):
        if int(offset[1:3]) > 23 or int(offset[4:6]) > 59:
            return False
    return True


class Dev:
    """Deviation switches for one evaluation of the model."""

    def __init__(self, waiver=False, fmt_unknown=True, curated=None, formats=("uuid", "date-time"),
                 nested_bool_conflation=False, custom=None, mult_disputed=True, ecma=False, reduced_default=False):
        self.waiver = waiver
        # patterns read as ECMA 262 (Draft 6) instead of Python's `re` - used by C01 only: the other checks
        # compare statham with statham-made images, where the dialect cancels out
        self.ecma = ecma
        self.reduced_default = reduced_default
        # verdict for a multipleOf on which binary floating point, exact arithmetic on the doubles and decimal
        # arithmetic on the shortest representation do not all agree (Draft 6 is silent on precision)
        self.mult_disputed = mult_disputed
        self.used_mult_disputed = False
        # verdict for strings whose membership in a registered format is not
        # unambiguous between the RFC and the registered checker
        self.fmt_unknown = fmt_unknown
        self.curated = curated or {}
        self.formats = set(formats)
        # formats the harness registered itself: name -> predicate (exactly known)
        self.custom = custom or {}
        self.nested_bool_conflation = nested_bool_conflation
        self.used_waiver = False
        # `waiver` may also be a sequence: one decision per occurrence, in evaluation order (the deviation
        # reads "MAY be omitted" - statham waives a property-level `required`, not a `required` list, so the
        # occurrences of one case can fall differently)
        self.waiver_seen = 0
        self.used_fmt_unknown = False
        # `fmt_unknown` may also be a dict (format, string) -> bool: a checker is a function of the string, so
        # two different (format, string) pairs of one case can fall differently (uuid vs date-time of "2")
        self.fmt_seen = set()


_ECMA_CACHE = {}


def ecma_pattern(pattern):
    """The Python regex with the meaning ECMA 262 (the dialect Draft 6 prescribes) gives to `pattern`, for
    the constructs on which the two dialects differ and which the generators use: `$` (ECMA: end of input
    only; Python: also before a trailing newline), `\\d` / `\\w` (ECMA: ASCII only) and `.` (ECMA: no line
    terminator at all; Python: anything but \\n).  Escapes and character classes are respected."""
    if pattern in _ECMA_CACHE:
        return _ECMA_CACHE[pattern]
    out = []
    idx, in_class = 0, False
    while idx < len(pattern):
        char = pattern[idx]
        if char == "\\" and idx + 1 < len(pattern):
            nxt = pattern[idx + 1]
            if nxt == "d":
                out.append("0-9" if in_class else "[0-9]")
            elif nxt == "w":
                out.append("A-Za-z0-9_" if in_class else "[A-Za-z0-9_]")
            elif nxt == "D" and not in_class:
                out.append("[^0-9]")
            elif nxt == "W" and not in_class:
                out.append("[^A-Za-z0-9_]")
            else:
                out.append(char + nxt)
            idx += 2
            continue
        if in_class:
            if char == "]":
                in_class = False
            out.append(char)
        elif char == "[":
            in_class = True
            out.append(char)
            if idx + 1 < len(pattern) and pattern[idx + 1] == "^":
                out.append("^")
                idx += 1
            if idx + 1 < len(pattern) and pattern[idx + 1] == "]":
                out.append("\\]")
                idx += 1
        elif char == "$":
            out.append("\\Z")
        elif char == ".":
            out.append("[^\\n\\r\u2028\u2029]")
        else:
            out.append(char)
        idx += 1
    _ECMA_CACHE[pattern] = "".join(out)
    return _ECMA_CACHE[pattern]


def pattern_search(pattern, string, dev):
    if getattr(dev, "ecma", False):
        return re.search(ecma_pattern(pattern), string)
    return re.search(pattern, string)


def reduces_to_default(schema, root, depth=0):
    """Does this schema consist of composition keywords only, with ONE non-trivial branch (which statham's
    normal form reduces to that branch's element) whose branch declares a default?  Used only to attribute
    known finding F44 (the reduction makes the branch's default the default of the enclosing schema)."""
    if not isinstance(schema, dict) or depth > 6:
        return False
    keys = set(schema) - {"title", "description", "definitions", "_x_autotitle", "$id", "$schema"}
    # (several composition keywords of which all branches but one are trivial reduce the same way:
    # `{"allOf": [true], "anyOf": [X]}` is X)
    if not keys or not keys <= {"anyOf", "oneOf", "allOf"} or not all(isinstance(schema[k], list) for k in keys):
        return False
    branches = [b for key in keys for b in schema[key] if b is not True and b != {}]
    if len(branches) != 1:
        return False
    branch = branches[0]
    hops = 0
    while isinstance(branch, dict) and "$ref" in branch and hops < 10:
        try:
            branch = resolve_pointer(root, branch["$ref"])
        except Exception:  # pylint: disable=broad-except
            return False
        hops += 1
    return isinstance(branch, dict) and ("default" in branch or reduces_to_default(branch, root, depth + 1))


def multiple_readings(value, multiple):
    """Verdicts of the defensible readings of `value multipleOf multiple`.  With two integers there is one
    reading.  As soon as a float takes part: exact arithmetic on the doubles, decimal arithmetic on their
    shortest representations (what the JSON text said), and the float quotient every floating-point
    validator computes (which cannot tell neighbours apart beyond 2**53, and overflows to the exact
    reading).  The model is decisive only where all of them agree."""
    out = set()
    try:
        exact = (Fraction(value) / Fraction(multiple)).denominator == 1
    except (OverflowError, ValueError, ZeroDivisionError):
        exact = False
    out.add(exact)
    if isinstance(value, float) or isinstance(multiple, float):
        import decimal  # pylint: disable=import-outside-toplevel

        try:
            with decimal.localcontext() as context:
                context.prec = 2000
                context.Emax = decimal.MAX_EMAX
                context.Emin = decimal.MIN_EMIN
                quotient = decimal.Decimal(repr(value)) / decimal.Decimal(repr(multiple))
                out.add(quotient == quotient.to_integral_value())
        except (decimal.DecimalException, ValueError, OverflowError):
            pass
        try:
            quotient = value / multiple
            if quotient not in (float("inf"), float("-inf")) and quotient == quotient:
                out.add(int(quotient) == quotient)
        except (OverflowError, ZeroDivisionError, ValueError):
            pass
    return out


def is_number(value):
    return isinstance(value, (int, float)) and not isinstance(value, bool)


def json_eq(left, right):
    """JSON-Schema equality: numbers mathematical, booleans distinct, at every depth."""
    if isinstance(left, bool) or isinstance(right, bool):
        return isinstance(left, bool) and isinstance(right, bool) and left == right
    if is_number(left) and is_number(right):
        return left == right
    if left is None or right is None:
        return left is None and right is None
    if isinstance(left, str) or isinstance(right, str):
        return isinstance(left, str) and isinstance(right, str) and left == right
    if isinstance(left, list) and isinstance(right, list):
        return len(left) == len(right) and all(json_eq(a, b) for a, b in zip(left, right))
    if isinstance(left, dict) and isinstance(right, dict):
        return set(left) == set(right) and all(json_eq(left[k], right[k]) for k in left)
    return False


def conflated_eq(left, right):
    """F10 re-enactment: booleans distinct at top level only (Python == below)."""
    if isinstance(left, bool) or isinstance(right, bool):
        return isinstance(left, bool) and isinstance(right, bool) and left == right
    try:
        return left == right
    except Exception:  # pylint: disable=broad-except
        return False


def type_matches(name, value):
    if name == "null":
        return value is None
    if name == "boolean":
        return isinstance(value, bool)
    if name == "object":
        return isinstance(value, dict)
    if name == "array":
        return isinstance(value, list)
    if name == "string":
        return isinstance(value, str)
    if name == "number":
        return is_number(value)
    if name == "integer":
        # documented deviation: a Python int only (1.0 is not an integer)
        return isinstance(value, int) and not isinstance(value, bool)
    return False


NAME_MAPS = ("properties", "patternProperties", "definitions", "dependencies")
LITERAL_KEYWORDS = ("const", "enum", "default")


def walk_schemas(node):
    """Every dict sitting at a schema position below `node`, by POSITION: the members of the name maps are
    schemas whatever they are called (a property named "default" is a schema), the keywords `default` /
    `const` / `enum` hold literals."""
    if isinstance(node, list):
        for sub in node:
            yield from walk_schemas(sub)
        return
    if not isinstance(node, dict):
        return
    yield node
    for key, val in node.items():
        if key in LITERAL_KEYWORDS:
            continue
        if key in NAME_MAPS and isinstance(val, dict):
            for sub in val.values():
                yield from walk_schemas(sub)
        else:
            yield from walk_schemas(val)


def resolve_pointer(root, pointer):
    if pointer in ("", "#"):
        return root
    # ("#/" is NOT the root: RFC 6901 reads it as the member whose name is the empty string)
    assert pointer.startswith("#/"), pointer
    node = root
    # the pointer is the URI-fragment representation (RFC 6901 section 6): percent-decode, then evaluate
    for part in urllib.parse.unquote(pointer[2:]).split("/"):
        part = part.replace("~1", "/").replace("~0", "~")
        if isinstance(node, list):
            node = node[int(part)]
        else:
            node = node[part]
    return node


def valid(schema, value, root=None, dev=None, depth=0):
    """True iff `value` is valid against `schema` under Draft 6 (+ switches)."""
    dev = dev or Dev()
    root = schema if root is None else root
    if schema is True:
        return True
    if schema is False:
        return False
    if not isinstance(schema, dict):
        raise ValueError(f"not a schema: {schema!r}")
    if "$ref" in schema:
        return valid(resolve_pointer(root, schema["$ref"]), value, root, dev, depth + 1)
    equal = conflated_eq if dev.nested_bool_conflation else json_eq

    if "type" in schema:
        types = schema["type"]
        if isinstance(types, str):
            types = [types]
        if not any(type_matches(name, value) for name in types):
            return False
    if "enum" in schema and not any(equal(value, member) for member in schema["enum"]):
        return False
    if "const" in schema and not equal(value, schema["const"]):
        return False

    if is_number(value):
        if "multipleOf" in schema:
            readings = multiple_readings(value, schema["multipleOf"])
            if len(readings) == 2:
                dev.used_mult_disputed = True
                if not dev.mult_disputed:
                    return False
            elif readings == {False}:
                return False
        if "maximum" in schema and value > schema["maximum"]:
            return False
        if "minimum" in schema and value < schema["minimum"]:
            return False
        if "exclusiveMaximum" in schema and value >= schema["exclusiveMaximum"]:
            return False
        if "exclusiveMinimum" in schema and value <= schema["exclusiveMinimum"]:
            return False

    if isinstance(value, str):
        if "maxLength" in schema and len(value) > schema["maxLength"]:
            return False
        if "minLength" in schema and len(value) < schema["minLength"]:
            return False
        if "pattern" in schema and not pattern_search(schema["pattern"], value, dev):
            return False
        fmt = schema.get("format")
        if isinstance(fmt, str) and fmt in dev.custom:
            if not dev.custom[fmt](value):
                return False
        elif isinstance(fmt, str) and fmt in dev.formats:
            known = dev.curated.get(fmt, {}).get(value)
            if known is None:
                if fmt == "uuid" and UUID_RE.match(value):
                    known = True
                elif fmt == "date-time" and is_rfc3339(value) and not value[:4] == "0000" \
                        and not value[17:19] == "60":
                    known = True
            if known is None:
                dev.used_fmt_unknown = True
                dev.fmt_seen.add((fmt, value))
                known = dev.fmt_unknown.get((fmt, value), True) if isinstance(dev.fmt_unknown, dict) \
                    else dev.fmt_unknown
            if not known:
                return False

    if isinstance(value, list):
        items = schema.get("items", True)
        if isinstance(items, list):
            for sub_schema, sub_value in zip(items, value):
                if not valid(sub_schema, sub_value, root, dev, depth + 1):
                    return False
            additional = schema.get("additionalItems", True)
            for sub_value in value[len(items):]:
                if not valid(additional, sub_value, root, dev, depth + 1):
                    return False
        else:
            for sub_value in value:
                if not valid(items, sub_value, root, dev, depth + 1):
                    return False
        if "maxItems" in schema and len(value) > schema["maxItems"]:
            return False
        if "minItems" in schema and len(value) < schema["minItems"]:
            return False
        if schema.get("uniqueItems", False):
            for idx, left in enumerate(value):
                for right in value[idx + 1:]:
                    if dev.nested_bool_conflation:
                        if conflated_eq(left, right):
                            return False
                    elif json_eq(left, right):
                        return False
        if "contains" in schema:
            if not any(valid(schema["contains"], sub, root, dev, depth + 1) for sub in value):
                return False

    if isinstance(value, dict):
        if "maxProperties" in schema and len(value) > schema["maxProperties"]:
            return False
        if "minProperties" in schema and len(value) < schema["minProperties"]:
            return False
        props = schema.get("properties", {})
        patterns = schema.get("patternProperties", {})
        for name in schema.get("required", []):
            if name in value:
                continue
            declared = props.get(name)
            if isinstance(declared, dict) and "$ref" in declared and len(declared) == 1:
                try:
                    declared = resolve_pointer(root, declared["$ref"])
                except Exception:  # pylint: disable=broad-except
                    pass
            if isinstance(declared, dict) and ("default" in declared or (
                    getattr(dev, "reduced_default", False) and reduces_to_default(declared, root))):
                dev.used_waiver = True
                occurrence = dev.waiver_seen
                dev.waiver_seen += 1
                if isinstance(dev.waiver, (list, tuple)):
                    decision = dev.waiver[occurrence] if occurrence < len(dev.waiver) else False
                else:
                    decision = dev.waiver
                if decision:
                    continue
            return False
        additional = schema.get("additionalProperties", True)
        for key, sub_value in value.items():
            matched = False
            if key in props:
                matched = True
                if not valid(props[key], sub_value, root, dev, depth + 1):
                    return False
            for pattern, sub_schema in patterns.items():
                if pattern_search(pattern, key, dev):
                    matched = True
                    if not valid(sub_schema, sub_value, root, dev, depth + 1):
                        return False
            if not matched and not valid(additional, sub_value, root, dev, depth + 1):
                return False
        for key, dependency in schema.get("dependencies", {}).items():
            if key not in value:
                continue
            if isinstance(dependency, list):
                if any(name not in value for name in dependency):
                    return False
            elif not valid(dependency, value, root, dev, depth + 1):
                return False
        if "propertyNames" in schema:
            for key in value:
                if not valid(schema["propertyNames"], key, root, dev, depth + 1):
                    return False

    for sub_schema in schema.get("allOf", []):
        if not valid(sub_schema, value, root, dev, depth + 1):
            return False
    if "anyOf" in schema:
        if not any(valid(sub, value, root, dev, depth + 1) for sub in schema["anyOf"]):
            return False
    if "oneOf" in schema:
        # evaluate every branch (no short circuit) so the switches record usage
        hits = sum(1 for sub in schema["oneOf"] if valid(sub, value, root, dev, depth + 1))
        if hits != 1:
            return False
    if "not" in schema:
        if valid(schema["not"], value, root, dev, depth + 1):
            return False
    return True


def verdicts(schema, value, root=None, curated=None, **switches):
    """Set of verdicts Draft 6 + documented deviations allow for this case.

    {True} / {False}: unambiguous.  {True, False}: the statement allows either
    (required-with-default waiver read both ways, or a string whose membership
    in a registered format differs between RFC and registered checker).
    """
    out = set()
    first = Dev(waiver=False, fmt_unknown=True, mult_disputed=True, curated=curated, **switches)
    out.add(valid(schema, value, root, first))
    # short-circuiting may have hidden a later use of a switch: probe once with every switch flipped
    probe = Dev(waiver=True, fmt_unknown=False, mult_disputed=False, curated=curated, **switches)
    out.add(valid(schema, value, root, probe))
    used = [first.used_waiver or probe.used_waiver, first.used_fmt_unknown or probe.used_fmt_unknown,
            first.used_mult_disputed or probe.used_mult_disputed]
    if used[2]:
        # a disputed multipleOf was consulted: each occurrence may fall either way on its own (and under
        # oneOf / not the effect is not monotonic), so the model does not decide this case
        return {True, False}
    if any(used) and len(out) < 2:
        import itertools  # pylint: disable=import-outside-toplevel

        for waiver, fmt_unknown, mult in itertools.product(*[(True, False) if flag else (None,) for flag in used]):
            dev = Dev(waiver=bool(waiver), fmt_unknown=True if fmt_unknown is None else fmt_unknown,
                      mult_disputed=True if mult is None else mult, curated=curated, **switches)
            out.add(valid(schema, value, root, dev))
            if len(out) == 2:
                break
    occurrences = max(first.waiver_seen, probe.waiver_seen)
    if len(out) < 2 and 2 <= occurrences <= 8:
        import itertools  # pylint: disable=import-outside-toplevel

        for plan in itertools.product((True, False), repeat=occurrences):
            if all(plan) or not any(plan):
                continue    # the uniform plans were evaluated above
            for fmt_unknown in ((True, False) if used[1] else (True,)):
                dev = Dev(waiver=plan, fmt_unknown=fmt_unknown, mult_disputed=True, curated=curated, **switches)
                out.add(valid(schema, value, root, dev))
            if len(out) == 2:
                break
    elif len(out) < 2 and occurrences > 8:
        return {True, False}
    pairs = sorted(first.fmt_seen | probe.fmt_seen, key=repr)
    if len(out) < 2 and 2 <= len(pairs) <= 6:
        import itertools  # pylint: disable=import-outside-toplevel

        for plan in itertools.product((True, False), repeat=len(pairs)):
            if all(plan) or not any(plan):
                continue
            for waiver in ((True, False) if used[0] else (False,)):
                dev = Dev(waiver=waiver, fmt_unknown=dict(zip(pairs, plan)), mult_disputed=True, curated=curated,
                          **switches)
                out.add(valid(schema, value, root, dev))
            if len(out) == 2:
                break
    elif len(out) < 2 and len(pairs) > 6:
        return {True, False}
    return out


# --------------------------------------------------------------------------
# Draft-6 metaschema (from json-schema.org; used to vet generated schemas)

METASCHEMA = {
    "$schema": "http://json-schema.org/draft-06/schema#",
    "$id": "http://json-schema.org/draft-06/schema#",
    "title": "Core schema meta-schema",
    "definitions": {
        "schemaArray": {"type": "array", "minItems": 1, "items": {"$ref": "#"}},
        "nonNegativeInteger": {"type": "integer", "minimum": 0},
        "nonNegativeIntegerDefault0": {
            "allOf": [{"$ref": "#/definitions/nonNegativeInteger"}, {"default": 0}]
        },
        "simpleTypes": {
            "enum": ["array", "boolean", "integer", "null", "number", "object", "string"]
        },
        "stringArray": {
            "type": "array", "items": {"type": "string"}, "uniqueItems": True, "default": [],
        },
    },
    "type": ["object", "boolean"],
    "properties": {
        "$id": {"type": "string", "format": "uri-reference"},
        "$schema": {"type": "string", "format": "uri"},
        "$ref": {"type": "string", "format": "uri-reference"},
        "title": {"type": "string"},
        "description": {"type": "string"},
        "default": {},
        "examples": {"type": "array", "items": {}},
        "multipleOf": {"type": "number", "exclusiveMinimum": 0},
        "maximum": {"type": "number"},
        "exclusiveMaximum": {"type": "number"},
        "minimum": {"type": "number"},
        "exclusiveMinimum": {"type": "number"},
        "maxLength": {"$ref": "#/definitions/nonNegativeInteger"},
        "minLength": {"$ref": "#/definitions/nonNegativeIntegerDefault0"},
        "pattern": {"type": "string", "format": "regex"},
        "additionalItems": {"$ref": "#"},
        "items": {
            "anyOf": [{"$ref": "#"}, {"$ref": "#/definitions/schemaArray"}], "default": {},
        },
        "maxItems": {"$ref": "#/definitions/nonNegativeInteger"},
        "minItems": {"$ref": "#/definitions/nonNegativeIntegerDefault0"},
        "uniqueItems": {"type": "boolean", "default": False},
        "contains": {"$ref": "#"},
        "maxProperties": {"$ref": "#/definitions/nonNegativeInteger"},
        "minProperties": {"$ref": "#/definitions/nonNegativeIntegerDefault0"},
        "required": {"$ref": "#/definitions/stringArray"},
        "additionalProperties": {"$ref": "#"},
        "definitions": {
            "type": "object", "additionalProperties": {"$ref": "#"}, "default": {},
        },
        "properties": {
            "type": "object", "additionalProperties": {"$ref": "#"}, "default": {},
        },
        "patternProperties": {
            "type": "object", "additionalProperties": {"$ref": "#"}, "default": {},
        },
        "dependencies": {
            "type": "object",
            "additionalProperties": {
                "anyOf": [{"$ref": "#"}, {"$ref": "#/definitions/stringArray"}]
            },
        },
        "propertyNames": {"$ref": "#"},
        "const": {},
        "enum": {"type": "array", "minItems": 1, "uniqueItems": True},
        "type": {
            "anyOf": [
                {"$ref": "#/definitions/simpleTypes"},
                {
                    "type": "array",
                    "items": {"$ref": "#/definitions/simpleTypes"},
                    "minItems": 1,
                    "uniqueItems": True,
                },
            ]
        },
        "format": {"type": "string"},
        "allOf": {"$ref": "#/definitions/schemaArray"},
        "anyOf": {"$ref": "#/definitions/schemaArray"},
        "oneOf": {"$ref": "#/definitions/schemaArray"},
        "not": {"$ref": "#"},
    },
    "default": {},
}


def _metaschema_integerish(schema):
    """The metaschema is judged by pure Draft 6 (1.0 counts as an integer
    there), but we only ever generate Python ints for integer-valued
    keywords, so the deviation switch makes no difference."""
    return schema


SIZE_KEYWORDS = ("minLength", "maxLength", "minItems", "maxItems", "minProperties", "maxProperties")


def _integral_sizes(node, depth=0):
    """The metaschema asks for integers at the size keywords; Draft 6 counts 2.0 as one (the model's own
    `integer` is the Python int, a documented deviation for VALUES, not for the schema's own keywords)."""
    if depth > 60:
        return node
    if isinstance(node, dict):
        return {key: (int(val) if key in SIZE_KEYWORDS and isinstance(val, float) and val.is_integer()
                      else _integral_sizes(val, depth + 1)) for key, val in node.items()}
    if isinstance(node, list):
        return [_integral_sizes(val, depth + 1) for val in node]
    return node


def metaschema_valid(schema):
    schema = _integral_sizes(schema)
    return valid(METASCHEMA, schema, METASCHEMA, Dev(formats=()))
