"""Cross-cutting monitors: purity snapshots, attribute write log, reach counters,
yield injector (sys.monitoring)."""
import json
import sys
import threading
import time

from vlib import fingerprint as fpm
from vlib import sut


def observable(func, *args, **kwargs):
    """Result of a library observable, or the exception class it raises."""
    try:
        return ("ok", func(*args, **kwargs))
    except RecursionError:
        return ("raises", "RecursionError")
    except Exception as exc:  # pylint: disable=broad-except
        return ("raises", type(exc).__name__)


def _json_text(*elements):
    return json.dumps(sut.serialize_json(*elements), sort_keys=False, default=repr)


class PuritySnapshot:
    """Everything the statement lets a user observe about an element tree."""

    def __init__(self, roots, full=True):
        roots = roots if isinstance(roots, (list, tuple)) else [roots]
        self.fp = tuple(fpm.fp_config(root) for root in roots)
        self.full = full
        if full:
            self.repr = tuple(observable(repr, root) for root in roots)
            self.json = observable(_json_text, *roots)
            self.python = observable(sut.serialize_python, *roots)

    def diff(self, other):
        """Names of the observables that differ."""
        out = []
        if self.fp != other.fp:
            out.append("fingerprint")
        if self.full and other.full:
            if self.repr != other.repr:
                out.append("repr")
            if self.json != other.json:
                out.append("serialize_json")
            if self.python != other.python:
                out.append("serialize_python")
        return out


def first_difference(left, right, path="root"):
    """Human-readable location of the first difference between two fingerprints."""
    if left == right:
        return None
    if isinstance(left, tuple) and isinstance(right, tuple) and len(left) == len(right):
        for idx, (sub_l, sub_r) in enumerate(zip(left, right)):
            if sub_l != sub_r:
                label = path
                if left and isinstance(left[0], str) and idx > 0:
                    label = f"{path}/{left[0]}[{idx}]"
                return first_difference(sub_l, sub_r, label)
    return f"{path}: {str(left)[:160]} -> {str(right)[:160]}"


# --------------------------------------------------------------------------
# attribute write log (diagnostic + steering)


class WriteLog:
    """Logs __setattr__ on pre-existing Element / _Property / model classes."""

    def __init__(self):
        self.events = []
        self.active = False
        self.preexisting = set()
        self._saved = {}
        self.lock = threading.Lock()

    def install(self):
        log = self

        def make(cls, original):
            def _setattr(obj, name, value):
                if log.active and id(obj) in log.preexisting:
                    old = obj.__dict__.get(name, "<unset>") if hasattr(obj, "__dict__") else "<unset>"
                    try:
                        same = old is value or old == value
                    except Exception:  # pylint: disable=broad-except
                        same = False
                    with log.lock:
                        log.events.append(
                            (threading.get_ident(), type(obj).__name__, id(obj), name, bool(same))
                        )
                return original(obj, name, value)

            return _setattr

        for cls in (sut.Element, sut._Property):  # pylint: disable=protected-access
            self._saved[cls] = cls.__dict__.get("__setattr__")
            cls.__setattr__ = make(cls, cls.__setattr__)

    def uninstall(self):
        for cls, saved in self._saved.items():
            if saved is None:
                try:
                    del cls.__setattr__
                except AttributeError:
                    pass
            else:
                cls.__setattr__ = saved
        self._saved = {}

    def watch(self, roots):
        """Mark every element/property reachable now as pre-existing."""
        seen = set()
        stack = list(roots)
        while stack:
            node = stack.pop()
            if id(node) in seen:
                continue
            seen.add(id(node))
            if isinstance(node, sut._Property):  # pylint: disable=protected-access
                stack.append(node.element)
            elif isinstance(node, sut.ObjectMeta):
                for name in fpm.CLASS_ATTRS:
                    stack.append(getattr(node, name, None))
            elif isinstance(node, sut.Element):
                stack.extend(vars(node).values())
            elif isinstance(node, dict):
                stack.extend(node.values())
            elif isinstance(node, (list, tuple)):
                stack.extend(node)
        self.preexisting = seen


# --------------------------------------------------------------------------
# sys.monitoring: reach counters and yield injection on statham code only

TOOL_ID = 3


def statham_code_objects():
    """Every code object defined in statham's modules."""
    import types  # pylint: disable=import-outside-toplevel

    out = []
    seen = set()

    def walk(code):
        if id(code) in seen:
            return
        seen.add(id(code))
        out.append(code)
        for const in code.co_consts:
            if isinstance(const, types.CodeType):
                walk(const)

    for name, module in list(sys.modules.items()):
        if not (name == "statham" or name.startswith("statham.")) or module is None:
            continue
        for obj in vars(module).values():
            funcs = []
            if isinstance(obj, types.FunctionType):
                funcs.append(obj)
            elif isinstance(obj, type):
                for member in vars(obj).values():
                    if isinstance(member, types.FunctionType):
                        funcs.append(member)
                    elif isinstance(member, (staticmethod, classmethod)):
                        funcs.append(member.__func__)
                    elif isinstance(member, property):
                        funcs.extend(f for f in (member.fget, member.fset) if f)
            for func in funcs:
                code = getattr(func, "__code__", None)
                if code is not None and "statham" in code.co_filename:
                    walk(code)
    return out


class YieldInjector:
    """LINE events on statham code; with probability p the callback yields the GIL."""

    def __init__(self, probability, seed):
        import random  # pylint: disable=import-outside-toplevel

        self.probability = probability
        self.seed = seed
        self.local = threading.local()
        self.random = random
        self.yields = 0
        self.lines = 0
        self.codes = []

    def _rng(self):
        rng = getattr(self.local, "rng", None)
        if rng is None:
            rng = self.random.Random(f"{self.seed}/{threading.current_thread().name}")
            self.local.rng = rng
        return rng

    def _line(self, code, line):  # pylint: disable=unused-argument
        self.lines += 1
        if self._rng().random() < self.probability:
            self.yields += 1
            time.sleep(0)

    def start(self):
        mon = sys.monitoring
        mon.use_tool_id(TOOL_ID, "verif-yield")
        mon.register_callback(TOOL_ID, mon.events.LINE, self._line)
        self.codes = statham_code_objects()
        for code in self.codes:
            mon.set_local_events(TOOL_ID, code, mon.events.LINE)

    def stop(self):
        mon = sys.monitoring
        for code in self.codes:
            try:
                mon.set_local_events(TOOL_ID, code, 0)
            except ValueError:
                pass
        mon.register_callback(TOOL_ID, mon.events.LINE, None)
        mon.free_tool_id(TOOL_ID)


class ReachCounter:
    """First-hit line events (callback returns DISABLE) on chosen functions."""

    def __init__(self, functions):
        self.functions = functions
        self.hit = set()
        self.names = {}

    def start(self):
        mon = sys.monitoring
        mon.use_tool_id(TOOL_ID + 1, "verif-reach")

        def _start(code, offset):  # pylint: disable=unused-argument
            self.hit.add(self.names.get(code, code.co_qualname))
            return mon.DISABLE

        mon.register_callback(TOOL_ID + 1, mon.events.PY_START, _start)
        for label, func in self.functions.items():
            code = getattr(func, "__code__", None) or getattr(getattr(func, "fget", None), "__code__", None)
            if code is None and hasattr(func, "__wrapped__"):
                code = func.__wrapped__.__code__
            if code is None:
                continue
            self.names[code] = label
            mon.set_local_events(TOOL_ID + 1, code, mon.events.PY_START)

    def stop(self):
        mon = sys.monitoring
        for code in self.names:
            try:
                mon.set_local_events(TOOL_ID + 1, code, 0)
            except ValueError:
                pass
        mon.register_callback(TOOL_ID + 1, mon.events.PY_START, None)
        mon.free_tool_id(TOOL_ID + 1)

    def never_hit(self):
        return sorted(set(self.names.values()) - self.hit)



class CallCounter:
    """Counts every entry (PY_START) into chosen functions: a measure of WORK in logical steps, for verdicts
    about termination / complexity that must not depend on the clock."""

    def __init__(self, functions):
        self.functions = functions
        self.calls = {}
        self.codes = {}

    def __enter__(self):
        mon = sys.monitoring
        mon.use_tool_id(TOOL_ID + 2, "verif-calls")

        def _start(code, offset):  # pylint: disable=unused-argument
            label = self.codes.get(code)
            if label is not None:
                self.calls[label] = self.calls.get(label, 0) + 1

        mon.register_callback(TOOL_ID + 2, mon.events.PY_START, _start)
        for label, func in self.functions.items():
            code = getattr(func, "__code__", None)
            if code is None:
                continue
            self.codes[code] = label
            mon.set_local_events(TOOL_ID + 2, code, mon.events.PY_START)
        return self

    def __exit__(self, *exc):
        mon = sys.monitoring
        for code in self.codes:
            try:
                mon.set_local_events(TOOL_ID + 2, code, 0)
            except ValueError:
                pass
        mon.register_callback(TOOL_ID + 2, mon.events.PY_START, None)
        mon.free_tool_id(TOOL_ID + 2)
        return False
