"""Element trees through the public Python DSL, described by plain-data specs.

A *spec* is JSON-like data; `build(spec)` creates a fresh element tree from it
through the public constructors, `to_schema(spec)` gives the Draft-6 schema
the tree *means* (written here from the DSL documentation, independent of
statham's serializer), so an independent fresh copy and an independent oracle
are available at any time.
"""
import copy

from vlib import gen_values as gv

SCHEMA_KW_SINGLE = ("contains", "propertyNames")
SCHEMA_KW_BOOL_OR = ("additionalItems", "additionalProperties")
SCHEMA_KW_DICT = ("patternProperties",)

KW = {
    "String": ["default", "const", "enum", "format", "pattern", "minLength", "maxLength", "description"],
    "Integer": ["default", "const", "enum", "minimum", "maximum", "exclusiveMinimum", "exclusiveMaximum",
                "multipleOf", "description"],
    "Number": ["default", "const", "enum", "minimum", "maximum", "exclusiveMinimum", "exclusiveMaximum",
               "multipleOf", "description"],
    "Boolean": ["default", "const", "enum", "description"],
    "Null": ["default", "const", "enum", "description"],
    "Array": ["default", "const", "enum", "additionalItems", "minItems", "maxItems", "uniqueItems",
              "contains", "description"],
}
TYPE_NAME = {"String": "string", "Integer": "integer", "Number": "number", "Boolean": "boolean",
             "Null": "null", "Array": "array", "Object": "object"}
CLASS_KW = ["default", "const", "enum", "required", "minProperties", "maxProperties", "patternProperties",
            "additionalProperties", "propertyNames", "dependencies", "description"]

LONG_DESCRIPTION = ("A description longer than any line limit or display width: it runs on and on, with  two "
                    "spaces here, a tab\there, and no line break for well over one hundred and sixty characters in all. ")
KEYWORD_PY_NAMES = ["description", "required", "default", "enum", "const", "dependencies", "properties"]
PY_NAMES = ["a", "b", "c", "d", "foo", "bar", "x1", "name_"]
RENAMES = {"class_": "class", "a_b": "a-b", "for_": "for", "first": "1st", "e_acute": "é", "my_name": "my name",
           "dollar": "$x", "type_": "type", "blank": ""}


class Gen:
    """Stateful spec generator (unique class names, shared nodes)."""

    def __init__(self, rng, max_depth=3, classes=True, share=0.15, renames=0.3, defaults=0.15,
                 explicit_required=0.3, inheritance=0.25, formats=False, lookalike_literals=True,
                 shared_props=0.0, pattern_overlap=0.0, keyword_names=0.0, long_descriptions=False,
                 vocabulary_class_names=0.0):
        self.rng = rng
        self.max_depth = max_depth
        self.classes = classes
        self.share = share
        self.renames = renames
        self.defaults = defaults
        self.explicit_required = explicit_required
        self.inheritance = inheritance
        self.formats = formats
        self.lookalike_literals = lookalike_literals
        self.shared_props = shared_props
        # property names that are also names of class keywords / attributes of every model class
        self.keyword_names = keyword_names
        # (only where reprs are not rendered over and over: error messages quote whole element trees)
        self.long_descriptions = long_descriptions
        self.pattern_overlap = pattern_overlap
        # class names that BEGIN like a name of the typing / element vocabulary (`ListOptions`, `UnionJack`)
        self.vocabulary_class_names = vocabulary_class_names
        self.next_id = 0
        self.class_count = 0
        self.shareable = []  # ids of nodes that may be referenced again
        self.class_ids = []
        self.specs_by_id = {}
        self.prop_pool = []

    # -- literals
    def literal(self, depth=1):
        rng = self.rng
        roll = rng.random()
        if roll < 0.55:
            return copy.deepcopy(rng.choice(gv.SCALARS))
        if roll < 0.7 and self.lookalike_literals:
            return copy.deepcopy(rng.choice([[1], [True], [0], [False], {"a": 1}, {"a": True}, [], {}, [[1.0]]]))
        return gv.random_value(rng, depth)

    def literals(self, count):
        from vlib import refmodel  # pylint: disable=import-outside-toplevel

        out = []
        for _ in range(count * 3):
            cand = self.literal()
            if not any(refmodel.json_eq(cand, other) for other in out):
                out.append(cand)
            if len(out) >= count:
                break
        return out

    def new_id(self):
        self.next_id += 1
        return self.next_id

    # -- keyword groups
    def common(self, kw, kind):
        rng = self.rng
        if rng.random() < 0.08:
            kw["const"] = self.literal()
        elif rng.random() < 0.08:
            kw["enum"] = self.literals(rng.randint(1, 3))
        if rng.random() < self.defaults:
            kw["default"] = self.literal()
        if rng.random() < 0.05:
            kw["description"] = rng.choice(["plain", "with 'quote'", "x"] + (
                [LONG_DESCRIPTION, LONG_DESCRIPTION * 3] if self.long_descriptions else []))

    def numeric(self, kw):
        rng = self.rng
        if rng.random() < 0.5:
            kw["minimum"] = gv.dyadic(rng, small=True)
        if rng.random() < 0.5:
            kw["maximum"] = gv.dyadic(rng, small=True)
        if rng.random() < 0.2:
            kw["exclusiveMinimum"] = gv.dyadic(rng, small=True)
        if rng.random() < 0.2:
            kw["exclusiveMaximum"] = gv.dyadic(rng, small=True)
        if rng.random() < 0.35:
            kw["multipleOf"] = rng.choice([1, 2, 3, 5, 0.5, 0.25, 1.5, 2.0])

    def string(self, kw):
        rng = self.rng
        if rng.random() < 0.4:
            kw["minLength"] = rng.choice([0, 1, 2, 3])
        if rng.random() < 0.4:
            kw["maxLength"] = rng.choice([0, 1, 2, 3, 5])
        if rng.random() < 0.35:
            kw["pattern"] = rng.choice(sorted(gv.PATTERNS))
        if self.formats and rng.random() < 0.1:
            kw["format"] = rng.choice(["uuid", "date-time"])

    def array(self, kw, depth):
        rng = self.rng
        if rng.random() < 0.3:
            kw["minItems"] = rng.choice([0, 1, 2])
        if rng.random() < 0.3:
            kw["maxItems"] = rng.choice([0, 1, 2, 3])
        if rng.random() < 0.25:
            kw["uniqueItems"] = True
        if rng.random() < 0.2:
            kw["contains"] = self.spec(depth - 1)
        if "additionalItems" not in kw and rng.random() < 0.15:
            # legal next to single-schema or absent items too (no validation effect there, but it is a
            # keyword of the element all the same)
            kw["additionalItems"] = False if rng.random() < 0.5 else self.spec(0)

    def items(self, depth, required=False):
        rng = self.rng
        roll = rng.random()
        if roll < 0.5 or (required and roll < 0.6):
            return self.spec(depth - 1), {}
        extra = {}
        # (an empty tuple is legal in the DSL: every item is then an additional item)
        items = [self.spec(depth - 1) for _ in range(rng.choice([0, 1, 1, 2, 2, 3]) if rng.random() < 0.3 else rng.randint(1, 3))]
        pick = rng.random()
        if pick < 0.3:
            extra["additionalItems"] = False
        elif pick < 0.6:
            extra["additionalItems"] = self.spec(depth - 1)
        return items, extra

    def prop(self, depth, pyname):
        rng = self.rng
        if self.prop_pool and rng.random() < self.shared_props:
            shared = rng.choice(self.prop_pool)
            return {"pid": shared["pid"], "el": shared["el"], "required": shared["required"],
                    "source": shared["source"]}
        el = self.spec(depth - 1)
        if self.pattern_overlap and rng.random() < 0.4:
            el = {"t": rng.choice(["AllOf", "AllOf", "AnyOf"]), "kw": {},
                  "elements": [el] + [self.spec(max(depth - 2, 0)) for _ in range(rng.randint(0, 1))]}
        out = {"el": el, "required": rng.random() < 0.4, "source": None}
        if pyname in RENAMES:
            out["source"] = RENAMES[pyname]
        if self.shared_props:
            out["pid"] = self.new_id()
            self.prop_pool.append(out)
        return out

    def prop_names(self, count):
        rng = self.rng
        pool = list(PY_NAMES)
        if rng.random() < self.renames * 2:
            pool += list(RENAMES)
        if rng.random() < self.keyword_names:
            pool = KEYWORD_PY_NAMES + rng.sample(pool, k=2)
        return rng.sample(pool, k=min(count, len(pool)))

    def object_kw(self, kw, depth, names):
        rng = self.rng
        if names and rng.random() < self.pattern_overlap:
            # a pattern that matches the JSON name of a declared property
            json_name = RENAMES.get(names[0], names[0])
            first = json_name[:1]
            pattern = "^$" if not json_name else "^" + (first if first.isalnum() else ".")
            kw["patternProperties"] = {pattern: self.spec(depth - 1)}
        elif rng.random() < 0.3:
            kw["patternProperties"] = {
                pattern: self.spec(depth - 1)
                for pattern in rng.sample(sorted(gv.PATTERNS), k=rng.randint(1, 2))
            }
        roll = rng.random()
        if roll < 0.3:
            kw["additionalProperties"] = False
        elif roll < 0.45:
            kw["additionalProperties"] = self.spec(depth - 1)
        if rng.random() < 0.2:
            kw["minProperties"] = rng.choice([0, 1, 2])
        if rng.random() < 0.2:
            kw["maxProperties"] = rng.choice([1, 2, 3])
        if rng.random() < 0.15:
            inner = {}
            self.string(inner)
            kw["propertyNames"] = {"t": "String", "kw": inner}
        if rng.random() < 0.2:
            deps = {}
            pool = list(dict.fromkeys([RENAMES.get(n, n) for n in names] + ["zz", "a"]))
            for key in rng.sample(pool, k=min(len(pool), rng.randint(1, 2))):
                roll = rng.random()
                if roll < 0.45:
                    deps[key] = rng.sample(pool, k=rng.randint(0, 2))
                elif roll < 0.6:
                    deps[key] = {"t": "Nothing"} if rng.random() < 0.7 else {"t": "Element", "kw": {}}
                else:
                    deps[key] = self.spec(depth - 1)
            kw["dependencies"] = deps
        if rng.random() < self.explicit_required:
            pool = list(dict.fromkeys([RENAMES.get(n, n) for n in names] + ["zz", "q"]))
            kw["required"] = list(dict.fromkeys(rng.sample(pool, k=rng.randint(1, min(3, len(pool))))))

    # -- nodes
    def family(self, depth, levels=2):
        """A class whose base class(es) are defined inline (so the ROOT of a tree can be a subclass)."""
        node = self.klass(max(depth - 1, 0))
        for _ in range(levels - 1):
            child = self.klass(depth, base=node["id"])
            child["base"] = node  # the defining node itself, not a ref
            node = child
        return node

    def klass(self, depth, base=None):
        rng = self.rng
        self.class_count += 1
        node = {"t": "Object", "name": f"K{self.class_count}", "kw": {}, "props": {}, "base": None,
                "id": self.new_id()}
        if rng.random() < self.vocabulary_class_names:
            node["name"] = rng.choice(["ListOptions", "ListItem", "Listing", "UnionJack", "MaybeNot", "AnyThing",
                                       "DictLike", "OptionalExtra", "TupleSpace", "Anything"]) + str(self.class_count)
        if base is None and self.class_ids and rng.random() < self.inheritance:
            base = rng.choice(self.class_ids)
        if base is not None:
            node["base"] = {"t": "ref", "id": base}
        names = self.prop_names(rng.randint(0, 3))
        for name in names:
            node["props"][name] = self.prop(depth, name)
        self.object_kw(node["kw"], depth, names)
        if rng.random() < self.defaults:
            node["kw"]["default"] = rng.choice([{}, {"a": 1}, {"zz": "x"}, 5, None])
        if rng.random() < 0.1:
            node["kw"]["const"] = rng.choice([{}, {"a": 1}])
        if rng.random() < 0.1:
            node["doc"] = rng.choice(["A docstring.", "Two\n    lines."])
        self.class_ids.append(node["id"])
        self.shareable.append(node["id"])
        self.specs_by_id[node["id"]] = node
        if "default" in node["kw"] and rng.random() < 0.3:
            node["default_in_body"] = True
        return node

    def spec(self, depth=None):
        rng = self.rng
        depth = self.max_depth if depth is None else depth
        if self.shareable and rng.random() < self.share:
            return {"t": "ref", "id": rng.choice(self.shareable)}
        roll = rng.random()
        if depth <= 0:
            kind = rng.choice(["String", "Integer", "Number", "Boolean", "Null", "Element"])
            kw = {}
            if kind == "String":
                self.string(kw)
            elif kind in ("Integer", "Number"):
                self.numeric(kw)
            self.common(kw, kind)
            node = {"t": kind, "kw": kw}
        elif roll < 0.3:
            kind = rng.choice(["String", "Integer", "Number", "Boolean", "Null"])
            kw = {}
            if kind == "String":
                self.string(kw)
            elif kind in ("Integer", "Number"):
                self.numeric(kw)
            self.common(kw, kind)
            node = {"t": kind, "kw": kw}
        elif roll < 0.42:
            kw = {}
            items, extra = self.items(depth, required=True)
            kw.update(extra)
            self.array(kw, depth)
            self.common(kw, "Array")
            node = {"t": "Array", "items": items, "kw": kw}
        elif roll < 0.62:
            kw = {}
            if rng.random() < 0.35:
                self.numeric(kw)
            if rng.random() < 0.35:
                self.string(kw)
            if rng.random() < 0.35:
                items, extra = self.items(depth)
                kw["items"] = items
                kw.update(extra)
                self.array(kw, depth)
            if rng.random() < 0.55:
                names = self.prop_names(rng.randint(0, 3))
                if names:
                    kw["properties"] = {name: self.prop(depth, name) for name in names}
                self.object_kw(kw, depth, names)
            self.common(kw, "Element")
            node = {"t": "Element", "kw": kw}
        elif roll < 0.8 and self.classes:
            node = self.klass(depth)
        elif roll < 0.93:
            kind = rng.choice(["AnyOf", "OneOf", "AllOf"])
            kw = {}
            if rng.random() < self.defaults:
                kw["default"] = self.literal()
            node = {"t": kind, "elements": [self.spec(depth - 1) for _ in range(rng.choice([1, 2, 2, 3]))],
                    "kw": kw}
        elif roll < 0.98:
            kw = {}
            if rng.random() < self.defaults:
                kw["default"] = self.literal()
            node = {"t": "Not", "element": self.spec(depth - 1), "kw": kw}
        else:
            node = {"t": "Nothing"}
        if node["t"] != "Object" and node["t"] != "Nothing" and rng.random() < self.share:
            node["id"] = self.new_id()
            self.shareable.append(node["id"])
            self.specs_by_id[node["id"]] = node
        return node


# --------------------------------------------------------------------------
# spec -> live elements


def build(spec, memo=None):
    """Build a fresh element tree from a spec through the public DSL."""
    from vlib import sut  # pylint: disable=import-outside-toplevel

    if memo is None:
        memo = {"__index__": index_specs(spec)}
    kind = spec["t"]
    if kind == "ref":
        if spec["id"] not in memo:
            build(memo["__index__"][spec["id"]], memo)
        return memo[spec["id"]]
    if "id" in spec and spec["id"] in memo:
        return memo[spec["id"]]
    if kind == "Nothing":
        out = sut.Nothing()
    elif kind == "Object":
        out = _build_class(spec, memo, sut)
    else:
        kwargs = {key: _build_kw(key, val, memo, sut) for key, val in spec.get("kw", {}).items()}
        if kind == "Array":
            items = spec["items"]
            built = [build(sub, memo) for sub in items] if isinstance(items, list) else build(items, memo)
            out = sut.Array(built, **kwargs)
        elif kind in ("AnyOf", "OneOf", "AllOf"):
            out = getattr(sut, kind)(*[build(sub, memo) for sub in spec["elements"]], **kwargs)
        elif kind == "Not":
            out = sut.Not(build(spec["element"], memo), **kwargs)
        else:
            out = getattr(sut, kind)(**kwargs)
    if "id" in spec:
        memo[spec["id"]] = out
    return out


def _build_prop(pspec, memo, sut):
    if "pid" in pspec and ("p", pspec["pid"]) in memo:
        return memo[("p", pspec["pid"])]
    prop = sut.Property(build(pspec["el"], memo), required=pspec["required"], source=pspec.get("source"))
    if "pid" in pspec:
        memo[("p", pspec["pid"])] = prop
    return prop


def _build_kw(key, val, memo, sut):
    if key == "properties":
        return {name: _build_prop(pspec, memo, sut) for name, pspec in val.items()}
    if key == "items":
        return [build(sub, memo) for sub in val] if isinstance(val, list) else build(val, memo)
    if key in SCHEMA_KW_SINGLE:
        return build(val, memo)
    if key in SCHEMA_KW_BOOL_OR:
        return val if isinstance(val, bool) else build(val, memo)
    if key in SCHEMA_KW_DICT:
        return {name: build(sub, memo) for name, sub in val.items()}
    if key == "dependencies":
        return {name: (list(dep) if isinstance(dep, list) else build(dep, memo)) for name, dep in val.items()}
    return copy.deepcopy(val)


def _build_class(spec, memo, sut):
    from statham.schema.elements.meta import ObjectClassDict  # pylint: disable=import-outside-toplevel

    bases = (sut.Object,)
    if spec.get("base"):
        bases = (build(spec["base"], memo),)
    classdict = ObjectClassDict()
    if "doc" in spec:
        classdict["__doc__"] = spec["doc"]
    for name, pspec in spec.get("props", {}).items():
        classdict[name] = _build_prop(pspec, memo, sut)
    kwargs = {key: _build_kw(key, val, memo, sut) for key, val in spec.get("kw", {}).items()}
    if spec.get("default_in_body") and "default" in kwargs:
        # the other documented spelling: `class Foo(Object): default = {...}` (a class variable)
        classdict["default"] = kwargs.pop("default")
    return sut.ObjectMeta(spec["name"], bases, classdict, **kwargs)


# --------------------------------------------------------------------------
# spec -> Draft-6 schema (the meaning of the tree, from the DSL documentation)


def effective_class(spec, index):
    """(kw, props) of a class spec after the documented inheritance merge:
    child keyword if passed else inherited; parent properties then child
    properties, override by attribute name."""
    kw, props = {}, {}
    if spec.get("base"):
        parent = index[spec["base"]["id"]] if spec["base"]["t"] == "ref" else spec["base"]
        pkw, pprops = effective_class(parent, index)
        kw.update(pkw)
        props.update(pprops)
    kw.update(spec.get("kw", {}))
    props.update(spec.get("props", {}))
    if "doc" in spec and "description" not in spec.get("kw", {}) and "description" not in kw:
        kw["description"] = spec["doc"]
    return kw, props


def index_specs(spec, index=None):
    """id -> node for every node carrying an id."""
    index = {} if index is None else index
    if isinstance(spec, dict):
        if "id" in spec and spec.get("t") != "ref":
            index[spec["id"]] = spec
        for val in spec.values():
            index_specs(val, index)
    elif isinstance(spec, list):
        for val in spec:
            index_specs(val, index)
    return index


def to_schema(spec, index=None, titles=True):
    index = index_specs(spec) if index is None else index
    kind = spec["t"]
    if kind == "ref":
        return to_schema(index[spec["id"]], index, titles)
    if kind == "Nothing":
        return False
    if kind == "Object":
        kw, props = effective_class(spec, index)
        out = {"type": "object"}
        if titles:
            out["title"] = spec["name"]
        _schema_kw(out, kw, index, titles)
        _schema_props(out, props, kw.get("required"), index, titles)
        return out
    out = {}
    if kind in TYPE_NAME:
        out["type"] = TYPE_NAME[kind]
    kw = spec.get("kw", {})
    _schema_kw(out, {k: v for k, v in kw.items() if k not in ("properties", "required")}, index, titles)
    if kind == "Element":
        _schema_props(out, kw.get("properties") or {}, kw.get("required"), index, titles)
    if kind == "Array":
        items = spec["items"]
        out["items"] = ([to_schema(sub, index, titles) for sub in items] if isinstance(items, list)
                        else to_schema(items, index, titles))
    if kind in ("AnyOf", "OneOf", "AllOf"):
        out[kind[0].lower() + kind[1:]] = [to_schema(sub, index, titles) for sub in spec["elements"]]
    if kind == "Not":
        out["not"] = to_schema(spec["element"], index, titles)
    return out


def _schema_kw(out, kw, index, titles):
    for key, val in kw.items():
        if key == "required":
            continue
        if key == "items":
            out[key] = ([to_schema(sub, index, titles) for sub in val] if isinstance(val, list)
                        else to_schema(val, index, titles))
        elif key in SCHEMA_KW_SINGLE:
            out[key] = to_schema(val, index, titles)
        elif key in SCHEMA_KW_BOOL_OR:
            out[key] = val if isinstance(val, bool) else to_schema(val, index, titles)
        elif key in SCHEMA_KW_DICT:
            out[key] = {name: to_schema(sub, index, titles) for name, sub in val.items()}
        elif key == "dependencies":
            out[key] = {name: (list(dep) if isinstance(dep, list) else to_schema(dep, index, titles))
                        for name, dep in val.items()}
        elif key == "uniqueItems" and val is False:
            continue
        else:
            out[key] = copy.deepcopy(val)


def _schema_props(out, props, explicit_required, index, titles):
    required = list(explicit_required or [])
    if props:
        out["properties"] = {}
        for name, pspec in props.items():
            json_name = pspec["source"] if pspec.get("source") is not None else name
            out["properties"][json_name] = to_schema(pspec["el"], index, titles)
            if pspec["required"] and json_name not in required:
                required.append(json_name)
    if required:
        out["required"] = list(dict.fromkeys(required))


def class_specs(spec, out=None):
    """All class nodes of a spec (first definition of each)."""
    out = [] if out is None else out
    if isinstance(spec, dict):
        if spec.get("t") == "Object":
            out.append(spec)
        for val in spec.values():
            class_specs(val, out)
    elif isinstance(spec, list):
        for val in spec:
            class_specs(val, out)
    return out


def count_nodes(spec):
    if isinstance(spec, dict):
        own = 1 if "t" in spec else 0
        return own + sum(count_nodes(v) for v in spec.values())
    if isinstance(spec, list):
        return sum(count_nodes(v) for v in spec)
    return 0


def shapes(spec, acc=None):
    """Names of the DSL shapes present (for coverage counters)."""
    acc = set() if acc is None else acc
    if isinstance(spec, dict):
        kind = spec.get("t")
        if kind:
            acc.add("t." + kind)
        if kind == "Object" and spec.get("base"):
            acc.add("inherited_class")
        if kind == "ref":
            acc.add("shared_node")
        if "required" in spec.get("kw", {}) if isinstance(spec.get("kw"), dict) else False:
            acc.add("explicit_required")
        for holder in (spec.get("props"), (spec.get("kw") or {}).get("properties") if isinstance(spec.get("kw"), dict) else None):
            if isinstance(holder, dict):
                for pspec in holder.values():
                    if isinstance(pspec, dict) and pspec.get("source") is not None:
                        acc.add("renamed_property")
                    if isinstance(pspec, dict) and pspec.get("required"):
                        acc.add("required_property")
        for val in spec.values():
            shapes(val, acc)
    elif isinstance(spec, list):
        for val in spec:
            shapes(val, acc)
    return acc
