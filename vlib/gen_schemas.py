"""Schema grammar over every keyword statham interprets + interaction templates.

All numeric literals are dyadic rationals, all patterns come from
gen_values.PATTERNS, every schema is metaschema-valid (checked by callers).
"""
import copy

from vlib import gen_values as gv

PLAIN_NAMES = ["a", "b", "c", "d", "foo", "bar", "x1", "name", "ab", "x_a"]
# names that _parse_attribute_name rewrites; pairwise non-colliding after mapping
RENAMING_NAMES = ["class", "a-b", "1st", "for", "é", "my name", "a.b", "__init__", "@type", "from", "caf\u00e9"]
# property names that are themselves JSON-Schema keywords (annotation keywords included): a loader or walker
# which treats a key by its spelling rather than by its position goes wrong on these
KEYWORD_NAMES = ["examples", "$comment", "default", "title", "type", "enum", "description", "$id", "readOnly"]
TYPES = ["null", "boolean", "integer", "number", "string", "array", "object"]
TITLES = ["T0", "T1", "T2", "Thing", "other thing", "T0"]


class Opts:
    def __init__(self, names=None, defaults=0.15, formats=True, refs=None, descriptions=False,
                 max_depth=3, lookalike_literals=True):
        self.names = names or (PLAIN_NAMES + RENAMING_NAMES)
        self.defaults = defaults
        self.formats = formats
        self.refs = refs or []  # list of "#/definitions/x" usable as sub-schemas
        self.descriptions = descriptions
        self.max_depth = max_depth
        self.lookalike_literals = lookalike_literals


def literal(rng, opts, depth=2):
    roll = rng.random()
    if roll < 0.5:
        return copy.deepcopy(rng.choice(gv.SCALARS))
    if roll < 0.65 and opts.lookalike_literals:
        return rng.choice([[1], [True], [0], [False], [1.0], {"a": 1}, {"a": True}, {"a": 0},
                           {"a": False}, [[1]], [[True]], [0, 1], [False, True], [], {},
                           {"examples": [1]}, {"$comment": "x", "a": 1}, {"default": 0, "title": "t"}])
    return gv.random_value(rng, depth)


def distinct_literals(rng, opts, count):
    from vlib import refmodel  # pylint: disable=import-outside-toplevel

    out = []
    for _ in range(count * 3):
        cand = literal(rng, opts)
        if not any(refmodel.json_eq(cand, other) for other in out):
            out.append(cand)
        if len(out) >= count:
            break
    return out


def sub(rng, opts, depth):
    """A sub-schema for a schema position."""
    roll = rng.random()
    if roll < 0.06:
        return True
    if roll < 0.10:
        return False
    if opts.refs and roll < 0.22:
        return {"$ref": rng.choice(opts.refs)}
    return schema(rng, opts, depth - 1)


def numeric_keywords(rng, out, integer=False):
    if rng.random() < 0.5:
        out["minimum"] = gv.dyadic(rng, small=True)
    if rng.random() < 0.5:
        out["maximum"] = gv.dyadic(rng, small=True)
    if rng.random() < 0.25:
        out["exclusiveMinimum"] = gv.dyadic(rng, small=True)
    if rng.random() < 0.25:
        out["exclusiveMaximum"] = gv.dyadic(rng, small=True)
    if rng.random() < 0.4:
        out["multipleOf"] = rng.choice([1, 2, 3, 5, 0.5, 0.25, 1.5, 2.0, 1.0, 7, 0.125])
    if "minimum" in out and "maximum" in out and out["minimum"] > out["maximum"] and rng.random() < 0.8:
        out["minimum"], out["maximum"] = out["maximum"], out["minimum"]


def string_keywords(rng, opts, out):
    if rng.random() < 0.45:
        out["minLength"] = rng.choice([0, 1, 2, 3])
    if rng.random() < 0.45:
        out["maxLength"] = rng.choice([0, 1, 2, 3, 5, 10])
    if rng.random() < 0.4:
        out["pattern"] = rng.choice(sorted(gv.PATTERNS))
    if opts.formats and rng.random() < 0.15:
        out["format"] = rng.choice(["uuid", "date-time", "email", "my-format", "ipv4"])


def array_keywords(rng, opts, out, depth):
    roll = rng.random()
    if roll < 0.4:
        out["items"] = sub(rng, opts, depth)
    elif roll < 0.75:
        out["items"] = [sub(rng, opts, depth) for _ in range(rng.randint(1, 3))]
        pick = rng.random()
        if pick < 0.3:
            out["additionalItems"] = False
        elif pick < 0.6:
            out["additionalItems"] = sub(rng, opts, depth)
        elif pick < 0.7:
            out["additionalItems"] = True
    elif roll < 0.8:
        # additionalItems without tuple items is ignored by Draft 6
        out["additionalItems"] = rng.choice([False, sub(rng, opts, depth)])
        if rng.random() < 0.5:
            out["items"] = sub(rng, opts, depth)
    if rng.random() < 0.3:
        out["minItems"] = rng.choice([0, 1, 2, 3])
    if rng.random() < 0.3:
        out["maxItems"] = rng.choice([0, 1, 2, 3, 4])
    if rng.random() < 0.3:
        out["uniqueItems"] = rng.random() < 0.8
    if rng.random() < 0.25:
        out["contains"] = sub(rng, opts, depth)


def object_keywords(rng, opts, out, depth):
    names = rng.sample(opts.names, k=min(len(opts.names), rng.randint(0, 4)))
    if names and rng.random() < 0.85:
        props = {}
        for name in names[: rng.randint(1, len(names))]:
            prop = sub(rng, opts, depth)
            if isinstance(prop, dict) and "$ref" not in prop and rng.random() < opts.defaults:
                prop["default"] = literal(rng, opts, 1)
            props[name] = prop
        out["properties"] = props
    if rng.random() < 0.45:
        pool = list(names) + [rng.choice(opts.names), "zz", "extra"]
        req = rng.sample(pool, k=rng.randint(1, min(3, len(pool))))
        out["required"] = list(dict.fromkeys(req))
    if rng.random() < 0.35:
        out["patternProperties"] = {
            pattern: sub(rng, opts, depth)
            for pattern in rng.sample(sorted(gv.PATTERNS), k=rng.randint(1, 2))
        }
    roll = rng.random()
    if roll < 0.3:
        out["additionalProperties"] = False
    elif roll < 0.5:
        out["additionalProperties"] = sub(rng, opts, depth)
    elif roll < 0.55:
        out["additionalProperties"] = True
    if rng.random() < 0.2:
        out["minProperties"] = rng.choice([0, 1, 2])
    if rng.random() < 0.2:
        out["maxProperties"] = rng.choice([0, 1, 2, 3])
    if rng.random() < 0.2:
        names_schema = {"type": "string"} if rng.random() < 0.5 else {}
        string_keywords(rng, Opts(formats=False), names_schema)
        out["propertyNames"] = rng.choice([names_schema, names_schema, True, False])
    if rng.random() < 0.25:
        deps = {}
        pool = list(names) + ["zz", "a", "b"]
        for key in rng.sample(pool, k=rng.randint(1, 2)):
            roll = rng.random()
            if roll < 0.45:
                deps[key] = list(dict.fromkeys(rng.sample(pool, k=rng.randint(0, 2))))
            elif roll < 0.6:
                deps[key] = rng.choice([False, False, True, {}])    # "this member must not be there" / no-ops
            else:
                deps[key] = sub(rng, opts, depth)
        out["dependencies"] = deps


def typed(rng, opts, depth, kind):
    out = {"type": kind}
    if kind in ("integer", "number"):
        numeric_keywords(rng, out, integer=kind == "integer")
    elif kind == "string":
        string_keywords(rng, opts, out)
    elif kind == "array" and depth > 0:
        array_keywords(rng, opts, out, depth)
    elif kind == "object":
        out["title"] = rng.choice(TITLES)
        if depth > 0:
            object_keywords(rng, opts, out, depth)
    return out


def schema(rng, opts=None, depth=None):
    """A random supported schema (dict)."""
    opts = opts or Opts()
    depth = opts.max_depth if depth is None else depth
    roll = rng.random()
    if depth <= 0:
        kind = rng.choice(TYPES[:5] + ["any"])
        if kind == "any":
            out = {}
        else:
            out = typed(rng, opts, 0, kind)
    elif roll < 0.42:
        out = typed(rng, opts, depth, rng.choice(TYPES))
    elif roll < 0.52:
        # type list with sibling keywords
        kinds = rng.sample(TYPES, k=rng.randint(1, 3))
        out = {"type": kinds}
        if "object" in kinds:
            out["title"] = rng.choice(TITLES)
        if rng.random() < 0.7:
            numeric_keywords(rng, out)
        if rng.random() < 0.5:
            string_keywords(rng, opts, out)
        if rng.random() < 0.3:
            array_keywords(rng, opts, out, depth)
        if rng.random() < 0.3:
            object_keywords(rng, opts, out, depth)
    elif roll < 0.66:
        # untyped with keywords of several types
        out = {}
        for adder, prob in ((numeric_keywords, 0.4), (None, 0.4)):
            if adder and rng.random() < prob:
                adder(rng, out)
        if rng.random() < 0.4:
            string_keywords(rng, opts, out)
        if rng.random() < 0.4:
            array_keywords(rng, opts, out, depth)
        if rng.random() < 0.5:
            object_keywords(rng, opts, out, depth)
    elif roll < 0.74:
        out = {}
        if rng.random() < 0.5:
            out["const"] = literal(rng, opts)
        else:
            out["enum"] = distinct_literals(rng, opts, rng.randint(1, 4))
        if rng.random() < 0.3:
            out["type"] = rng.choice(TYPES[:5])
    else:
        # composition, possibly with sibling keywords and with each other
        out = {}
        keys = rng.sample(["anyOf", "oneOf", "allOf", "not"], k=rng.choice([1, 1, 1, 2, 2, 3]))
        for key in keys:
            if key == "not":
                out["not"] = sub(rng, opts, depth)
            else:
                out[key] = [sub(rng, opts, depth) for _ in range(rng.choice([1, 2, 2, 3]))]
        sibling = rng.random()
        if sibling < 0.3:
            kind = rng.choice(TYPES)
            out.update(typed(rng, opts, depth - 1, kind))
        elif sibling < 0.45:
            numeric_keywords(rng, out)
        elif sibling < 0.55:
            object_keywords(rng, opts, out, depth - 1)
        elif sibling < 0.6:
            out["enum"] = distinct_literals(rng, opts, rng.randint(1, 3))
    if isinstance(out, dict) and rng.random() < 0.08 and "const" not in out and "enum" not in out:
        if rng.random() < 0.5:
            out["const"] = literal(rng, opts)
        else:
            out["enum"] = distinct_literals(rng, opts, rng.randint(1, 3))
    if isinstance(out, dict) and rng.random() < opts.defaults / 2:
        out["default"] = literal(rng, opts, 1)
    if opts.descriptions and isinstance(out, dict) and rng.random() < 0.3:
        out["description"] = rng.choice(["plain", "two words", "A sentence. Another one.", "ünï"])
    return out


# --------------------------------------------------------------------------
# interaction templates: the pairs the property texts name


def tmpl_required_additional(rng, opts):
    names = rng.sample(PLAIN_NAMES + RENAMING_NAMES, k=3)
    out = {
        "type": "object", "title": rng.choice(TITLES),
        "properties": {names[0]: leaf(rng), names[1]: leaf(rng)},
        "required": [names[rng.randrange(3)], names[rng.randrange(3)]],
        "additionalProperties": rng.choice([False, False, leaf(rng)]),
    }
    out["required"] = list(dict.fromkeys(out["required"]))
    if rng.random() < 0.5:
        out["patternProperties"] = {rng.choice(sorted(gv.PATTERNS)): leaf(rng)}
    if rng.random() < 0.3:
        out["propertyNames"] = {"maxLength": rng.choice([1, 3, 5])}
    if rng.random() < 0.3:
        out["dependencies"] = {names[0]: rng.choice([[names[2]], leaf(rng), {"required": [names[2]]}])}
    if rng.random() < 0.3:
        out.pop("type")
        out.pop("title")
    return out


def tmpl_pattern_overlap(rng, opts):
    """A declared property whose name also matches a pattern."""
    pattern = rng.choice(["^a", "b$", "o", "^[a-c]+$"])
    name = gv.key_for_pattern(rng, pattern, True)
    out = {
        "properties": {name: leaf(rng), "zz": leaf(rng)},
        "patternProperties": {pattern: leaf(rng)},
        "additionalProperties": rng.choice([False, True, leaf(rng)]),
    }
    if rng.random() < 0.5:
        out["type"] = "object"
        out["title"] = rng.choice(TITLES)
    if rng.random() < 0.4:
        out["required"] = [name]
    return out


def tmpl_pattern_pairs(rng, opts):
    """Several patternProperties at once (group + back-reference, overlapping patterns)."""
    patterns = rng.sample(["^(foo|bar)$", "^(a|b)\\1$", "(.)\\1", "^a", "o", "^[a-c]+$", "^..$"], k=rng.randint(2, 3))
    out = {"patternProperties": {pattern: leaf(rng) for pattern in patterns},
           "additionalProperties": rng.choice([False, False, True, leaf(rng)])}
    if rng.random() < 0.5:
        out["type"] = "object"
        out["title"] = rng.choice(TITLES)
    if rng.random() < 0.3:
        out["properties"] = {rng.choice(["aa", "foo", "ab", "bb"]): leaf(rng)}
    return out


def tmpl_tuple(rng, opts):
    out = {
        "items": [leaf(rng) for _ in range(rng.randint(1, 3))],
        "additionalItems": rng.choice([False, True, leaf(rng), leaf(rng)]),
    }
    if rng.random() < 0.5:
        out["type"] = "array"
    if rng.random() < 0.4:
        out["contains"] = leaf(rng)
    if rng.random() < 0.4:
        out["uniqueItems"] = True
    if rng.random() < 0.3:
        out["minItems"] = rng.choice([1, 2, 3, 4])
    if rng.random() < 0.3:
        out["maxItems"] = rng.choice([1, 2, 3, 4])
    return out


def tmpl_composition_siblings(rng, opts):
    out = {}
    kinds = rng.sample(["anyOf", "oneOf", "allOf"], k=rng.randint(1, 3))
    for key in kinds:
        out[key] = [leaf(rng) for _ in range(rng.randint(1, 3))]
    if rng.random() < 0.5:
        out["not"] = leaf(rng)
    extra = leaf(rng)
    if isinstance(extra, dict):
        for key, val in extra.items():
            out.setdefault(key, val)
    return out


def tmpl_typelist_siblings(rng, opts):
    kinds = rng.sample(TYPES, k=rng.randint(1, 4))
    out = {"type": kinds}
    if "object" in kinds:
        out["title"] = rng.choice(TITLES)
    numeric_keywords(rng, out)
    string_keywords(rng, opts, out)
    if rng.random() < 0.5:
        out["enum"] = distinct_literals(rng, opts, rng.randint(2, 5))
    if rng.random() < 0.3:
        out["default"] = literal(rng, opts, 1)
    return out


def tmpl_lookalike_literals(rng, opts):
    base = rng.choice([[1], [True], [0], [False], {"a": 1}, {"a": True}, {"a": [0]}, {"a": [False]},
                       [[1.0]], 1, True, 0, False, 1.0, 0.0, [1, True], [None], [""]])
    roll = rng.random()
    if roll < 0.35:
        return {"const": base}
    if roll < 0.7:
        return {"enum": distinct_literals(rng, opts, 2) + [base]
                if rng.random() < 0.5 else [base]}
    out = {"uniqueItems": True}
    if rng.random() < 0.5:
        out["type"] = "array"
    return out


def tmpl_same_title_objects(rng, opts):
    """Object schemas with equal / unequal bodies under equal titles."""
    title = rng.choice(TITLES)
    first = {"type": "object", "title": title, "properties": {"a": leaf(rng)}}
    second = copy.deepcopy(first) if rng.random() < 0.5 else {
        "type": "object", "title": title, "properties": {"a": leaf(rng)},
        "required": ["a"],
    }
    key = rng.choice(["anyOf", "oneOf", "allOf"])
    return {key: [first, second], "properties": {"b": copy.deepcopy(first)}}


def tmpl_nested_composition(rng, opts):
    """Compositions nested in compositions of the same / another kind, over overlapping numeric or
    string leaves, so that small values match several inner branches (oneOf is not associative)."""
    numeric = [{"type": "integer"}, {"minimum": 0}, {"multipleOf": 2}, {"maximum": 10}, {"multipleOf": 3},
               {"exclusiveMinimum": 4}, {"type": "number"}, {"enum": [0, 2, 4, 6]}, {"const": 6}]
    strings = [{"type": "string"}, {"minLength": 2}, {"maxLength": 3}, {"pattern": "^a"}, {"pattern": "b$"}]
    pool = numeric if rng.random() < 0.7 else strings
    outer = rng.choice(["oneOf", "oneOf", "anyOf", "allOf"])
    inner = outer if rng.random() < 0.6 else rng.choice(["oneOf", "anyOf", "allOf"])

    def group(key):
        return {key: [copy.deepcopy(x) for x in rng.sample(pool, k=rng.randint(2, 3))]}

    branches = [group(inner)]
    if rng.random() < 0.4:
        branches[0] = {rng.choice(["allOf", "anyOf"]): [branches[0]]}  # wrapped in a single-member composition
    branches += [copy.deepcopy(x) for x in rng.sample(pool, k=rng.randint(1, 2))]
    if rng.random() < 0.3:
        branches.append(group(inner))
    rng.shuffle(branches)
    return {outer: branches}


def leaf(rng):
    roll = rng.random()
    if roll < 0.08:
        return True
    if roll < 0.14:
        return False
    if roll < 0.3:
        return {"type": rng.choice(TYPES[:5])}
    if roll < 0.45:
        out = {"type": rng.choice(["integer", "number"])}
        numeric_keywords(rng, out)
        return out
    if roll < 0.6:
        out = {"type": "string"}
        string_keywords(rng, Opts(formats=False), out)
        return out
    if roll < 0.7:
        return {"const": copy.deepcopy(rng.choice(gv.SCALARS))}
    if roll < 0.78:
        return {"enum": [copy.deepcopy(x) for x in rng.sample(gv.SCALARS[:14], k=2)]}
    if roll < 0.86:
        out = {}
        numeric_keywords(rng, out)
        return out
    if roll < 0.93:
        return {"type": rng.sample(TYPES[:5], k=2)}
    return {"not": {"type": rng.choice(TYPES[:5])}}


def tmpl_float_sizes(rng, opts):
    """Size keywords written as the floats a serializer of another language emits (2.0 is an integer in
    Draft 6): they bound lengths exactly like 2."""
    kind = rng.choice(["string", "array", "object"])
    low, high = rng.choice([(1.0, 2.0), (2.0, 2.0), (0.0, 1.0), (3.0, 5.0), (2e0, 3e0)])
    if kind == "string":
        return {"type": "string", "minLength": low, "maxLength": high}
    if kind == "array":
        return {"type": "array", "minItems": low, "maxItems": high, "items": {"type": "integer"}}
    return {"type": "object", "title": "Sized", "minProperties": low, "maxProperties": high}


def tmpl_scale(rng, opts):
    """The same keywords at sizes no hand-written test uses: dozens to hundreds of properties, branches,
    enum members, tuple members, same-titled objects (a rule that changes past 9, 10, 32, 64, 100 or 256 of
    something, or with the ORDER of many members, shows here); values are made by the ordinary solver, whose
    one-point mutants then hit early, middle and late members alike."""
    size = rng.choice([11, 12, 33, 65, 101, 130, 257])
    kind = rng.choice(["properties", "required", "anyOf", "oneOf", "enum", "tuple", "same_titles", "patterns",
                       "dependencies", "nesting"])
    names = [f"p{idx:03d}" for idx in range(size)]
    rng.shuffle(names)
    if kind == "properties":
        out = {"type": "object", "title": "Wide", "additionalProperties": rng.choice([False, True]),
               "properties": {name: leaf(rng) for name in names}}
        out["required"] = rng.sample(names, k=rng.choice([1, size // 2, size]))
        return out
    if kind == "required":
        return {"required": names, "properties": {names[-1]: {"type": "integer"}}, "maxProperties": size + 1}
    if kind in ("anyOf", "oneOf"):
        # (a `number` branch among many: an integer value must reach it whatever its position)
        branches = [{"const": idx} if idx % 3 else {"type": "integer", "minimum": idx, "maximum": idx}
                    for idx in range(size)] + [{"type": "string", "maxLength": 2}]
        branches.insert(rng.randrange(len(branches)), {"type": "number", "minimum": size + 5, "maximum": size + 9})
        branches.insert(rng.randrange(len(branches)), {"type": "number", "multipleOf": 0.5, "maximum": -1})
        return {kind: branches}
    if kind == "enum":
        return {"enum": [idx if idx % 2 else f"s{idx}" for idx in range(size)] + [[size], {"k": size}]}
    if kind == "tuple":
        return {"type": "array", "items": [{"type": "integer", "minimum": idx} for idx in range(min(size, 40))],
                "additionalItems": rng.choice([False, {"type": "string"}]), "minItems": rng.choice([0, min(size, 40)])}
    if kind == "same_titles":
        # many different object schemas under ONE title (numbering runs past one digit)
        count = min(size, 14)
        return {"type": "object", "title": "Holder", "properties": {
            f"m{idx:02d}": {"type": "object", "title": "Item", "properties": {f"f{idx}": {"type": "integer"}},
                            "required": [f"f{idx}"]} for idx in range(count)}}
    if kind == "patterns":
        return {"patternProperties": {f"^k{idx:03d}": ({"type": "integer"} if idx % 2 else {"type": "string"})
                                      for idx in range(min(size, 60))}, "additionalProperties": False}
    if kind == "dependencies":
        return {"dependencies": {name: [names[(idx + 1) % size]] for idx, name in enumerate(names[:40])}}
    if rng.random() < 0.5:
        # literals nested far deeper than anything hand-written, differing from a look-alike only at the bottom
        depth = rng.choice([17, 33, 40])
        deep = rng.choice([True, False, 1, 0, "x"])
        for idx in range(depth):
            deep = [deep] if idx % 2 else {"k": deep}
        return rng.choice([{"const": deep}, {"enum": [deep, 0]}, {"type": "array", "uniqueItems": True, "items": {"enum": [deep, gv.lookalike(rng, deep), 5]}}])
    out = {"type": "integer"}
    for idx in range(rng.choice([6, 9, 12])):
        out = rng.choice([{"items": out, "type": "array"}, {"properties": {"n": out}, "required": ["n"]},
                          {"anyOf": [out, {"type": "null"}]}])
    return out


TEMPLATES = [
    tmpl_required_additional, tmpl_pattern_overlap, tmpl_tuple, tmpl_composition_siblings,
    tmpl_typelist_siblings, tmpl_lookalike_literals, tmpl_same_title_objects, tmpl_nested_composition,
    tmpl_pattern_pairs, tmpl_scale, tmpl_float_sizes,
]


# values of the annotation keyword `$schema`: official meta-schema URIs of every draft (older and newer than the
# supported one), the undated aliases, and strings that only look like them - a document may name any of them
SCHEMA_URIS = [
    "http://json-schema.org/draft-06/schema#", "http://json-schema.org/draft-06/schema",
    "http://json-schema.org/draft-07/schema#", "http://json-schema.org/draft-04/schema#",
    "http://json-schema.org/draft-03/schema#", "https://json-schema.org/draft/2019-09/schema",
    "https://json-schema.org/draft/2020-12/schema", "http://json-schema.org/schema#",
    "http://json-schema.org/hyper-schema#", "http://json-schema.org/draft-06/hyper-schema#",
    "http://json-schema.org/draft-xx/schema#", "http://example.com/my-meta-schema#", "urn:example:meta",
]


VACUOUS = [
    ("required", []), ("properties", {}), ("patternProperties", {}), ("dependencies", {}), ("items", {}),
    ("items", True), ("additionalProperties", True), ("additionalProperties", {}), ("additionalItems", True),
    ("minLength", 0), ("minItems", 0), ("minProperties", 0), ("uniqueItems", False), ("allOf", [{}]),
    ("allOf", [True]), ("anyOf", [{}]), ("oneOf", [{}]), ("propertyNames", {}),
    ("propertyNames", True), ("not", False), ("definitions", {}), ("title", ""), ("description", ""),
]


def add_vacuous(rng, schema_doc, count=2):
    """Keywords carrying their NEUTRAL value (an empty `required`, `properties: {}`, `allOf: [{}]`,
    `additionalProperties: true`, `minLength: 0` ...): valid, constraining nothing, and exactly what a
    serializer, a normal form or an equality test is tempted to drop in one place and keep in another. Added in
    place at random schema positions where the keyword is absent."""
    from vlib import refmodel  # pylint: disable=import-outside-toplevel

    nodes = [node for node in refmodel.walk_schemas(schema_doc) if "$ref" not in node]
    added = 0
    for _ in range(count * 3):
        if not nodes or added >= count:
            break
        node = rng.choice(nodes)
        key, val = rng.choice(VACUOUS)
        if key in node or (key == "title" and node.get("type") == "object"):
            continue
        if key == "definitions" and node is not schema_doc:
            continue
        node[key] = copy.deepcopy(val)
        added += 1
    return added


def any_schema(rng, opts=None, template_share=0.4):
    opts = opts or Opts()
    if rng.random() < template_share:
        tmpl = rng.choice(TEMPLATES)
        out = tmpl(rng, opts)
        if rng.random() < 0.3:
            # embed the template under a position
            wrapper = rng.choice(["items", "properties", "anyOf", "not", "additionalProperties"])
            if wrapper == "items":
                out = {"items": out}
            elif wrapper == "properties":
                out = {"properties": {rng.choice(PLAIN_NAMES): out}}
            elif wrapper == "anyOf":
                out = {"anyOf": [out, leaf(rng)]}
            elif wrapper == "not":
                out = {"not": out}
            else:
                out = {"additionalProperties": out}
        return out, tmpl.__name__
    return schema(rng, opts), "grammar"


def with_definitions(rng, opts=None, ndefs=None):
    """Root schema with `definitions` and $ref uses (for the file route)."""
    opts = opts or Opts()
    ndefs = rng.randint(1, 3) if ndefs is None else ndefs
    defs = {}
    inner = Opts(names=opts.names, defaults=opts.defaults, formats=opts.formats, refs=[],
                 max_depth=2)
    for idx in range(ndefs):
        # later definitions may reference earlier ones (chains, no cycles)
        inner.refs = [f"#/definitions/d{j}" for j in range(idx)]
        defs[f"d{idx}"] = schema(rng, inner, 2)
    outer = Opts(names=opts.names, defaults=opts.defaults, formats=opts.formats,
                 refs=[f"#/definitions/d{j}" for j in range(ndefs)], max_depth=opts.max_depth)
    root = schema(rng, outer)
    if not isinstance(root, dict):
        root = {"items": root}
    root["definitions"] = defs
    return root


def keywords_of(node, acc=None):
    """Set of validation keywords used anywhere in a schema (for coverage counters)."""
    acc = set() if acc is None else acc
    if isinstance(node, dict):
        for key, val in node.items():
            if key in ("default", "const", "enum", "title", "description"):
                if key in ("const", "enum"):
                    acc.add(key)
                continue
            acc.add(key)
            if key in ("properties", "patternProperties", "dependencies", "definitions"):
                if isinstance(val, dict):
                    for sub_schema in val.values():
                        keywords_of(sub_schema, acc)
            else:
                keywords_of(val, acc)
    elif isinstance(node, list):
        for member in node:
            keywords_of(member, acc)
    return acc


def size_of(node):
    """(number of validation keywords, nesting depth) of a schema."""
    if isinstance(node, dict):
        count = 0
        depth = 0
        for key, val in node.items():
            if key in ("title", "description", "default", "definitions"):
                continue
            count += 1
            if key in ("const", "enum", "required", "type", "pattern", "format"):
                continue
            if key in ("properties", "patternProperties", "dependencies"):
                subs = list(val.values()) if isinstance(val, dict) else []
            elif isinstance(val, list):
                subs = val
            else:
                subs = [val]
            for sub_schema in subs:
                if isinstance(sub_schema, (dict,)):
                    cnt, dep = size_of(sub_schema)
                    count += cnt
                    depth = max(depth, dep + 1)
        return count, depth
    return 0, 0
