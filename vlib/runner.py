"""Driver / worker plumbing shared by all checks.

Driver:  ./check C07 --tier quick            -> shards in subprocesses, merge,
                                                evidence, verdict lines
Worker:  ./check C07 --tier quick --shard 3 --nshards 16 --out f.json
Replay:  ./check C07 --replay replays/C07/<hash>.json

Verdicts are three-valued:
  exit 0  held on everything explored (KNOWN-FINDING lines possible)
  exit 1  VIOLATION property=<id> replay=<path>
  exit 2  INCONCLUSIVE property=<id> <reason>
"""
import argparse
import array
import faulthandler
import hashlib
import importlib
import json
import os
import random
import shutil
import subprocess
import sys
import tempfile
import time
import traceback
from concurrent.futures import ThreadPoolExecutor

from vlib import bootstrap

VERIF_DIR = bootstrap.VERIF_DIR
MAX_WITNESS_PER_KEY = 4
MAX_SAMPLES = 6


def jsonable(obj, depth=0):
    """Best-effort conversion of a case to something json.dumps accepts."""
    if depth > 60:
        return "<deep>"
    if obj is None or isinstance(obj, (bool, str)):
        return obj
    if isinstance(obj, int):
        if abs(obj) > 10 ** 60:
            return {"$bigint": str(obj)}
        return obj
    if isinstance(obj, float):
        if obj != obj or obj in (float("inf"), float("-inf")):
            return {"$float": repr(obj)}
        return obj
    if isinstance(obj, (list, tuple)):
        return [jsonable(x, depth + 1) for x in obj]
    if isinstance(obj, dict):
        return {str(k): jsonable(v, depth + 1) for k, v in obj.items()}
    return {"$repr": repr(obj)[:500]}


def unjsonable(obj):
    if isinstance(obj, list):
        return [unjsonable(x) for x in obj]
    if isinstance(obj, dict):
        if set(obj) == {"$bigint"}:
            return int(obj["$bigint"])
        if set(obj) == {"$float"}:
            return float(obj["$float"])
        return {k: unjsonable(v) for k, v in obj.items()}
    return obj


def canon(obj):
    """Canonical text of a JSON-ish case, type-tagged (1 != 1.0 != True)."""
    if isinstance(obj, bool):
        return "b1" if obj else "b0"
    if obj is None:
        return "n"
    if isinstance(obj, int):
        return f"i{obj}"
    if isinstance(obj, float):
        return f"f{obj!r}"
    if isinstance(obj, str):
        return "s" + json.dumps(obj)
    if isinstance(obj, (list, tuple)):
        return "[" + ",".join(canon(x) for x in obj) + "]"
    if isinstance(obj, dict):
        return "{" + ",".join(
            json.dumps(str(k)) + ":" + canon(v)
            for k, v in sorted(obj.items(), key=lambda kv: str(kv[0]))
        ) + "}"
    return "r" + repr(obj)


def h64(text):
    return int.from_bytes(
        hashlib.blake2b(text.encode("utf8", "surrogatepass"), digest_size=8).digest(),
        "little",
    )


class Ctx:
    """Per-shard collection of what the monitors observed."""

    def __init__(self, prop, tier, seed, shard, nshards, params, mirror=False):
        self.prop = prop
        self.tier = tier
        self.seed = seed
        self.shard = shard
        self.nshards = nshards
        self.params = params
        # A *mirror* shard replays the case stream of shard 0 in reverse order: the same cases meet a
        # process with a different history, and their observation digests must coincide.
        self.mirror = mirror
        self.stream = 0 if mirror else shard
        self.rng = random.Random(f"{seed}/{prop}/{tier}/{self.stream}")
        self.gen_rng = random.Random(f"{seed}/{prop}/{tier}/{self.stream}/gen")
        self.digests = {}
        self.evaluations = 0
        self.counters = {}
        self.keys = set()
        self.samples = []
        self.witnesses = {}
        self.witness_counts = {}
        self.inconclusive = []
        self.replay_mode = False
        self.workdir = None

    # -- observation API used by the checks
    def evaluation(self, n=1):
        self.evaluations += n

    def count(self, name, n=1):
        self.counters[name] = self.counters.get(name, 0) + n

    def nontrivial(self, case_key):
        """Register a distinct non-trivial case (hashed canonical form)."""
        self.keys.add(h64(case_key if isinstance(case_key, str) else canon(case_key)))

    def sample(self, case, every=1):
        if len(self.samples) < MAX_SAMPLES and (
            every <= 1 or self.rng.random() < 1.0 / every
        ):
            self.samples.append(jsonable(case))

    def witness(self, kind, case, detail, finding=None):
        """A refuting execution.  `finding` = id of the known-finding whose
        mechanism predicate explains it (decided by the check), else None."""
        key = f"{finding or 'UNLISTED'}|{kind}"
        self.witness_counts[key] = self.witness_counts.get(key, 0) + 1
        bucket = self.witnesses.setdefault(key, [])
        if len(bucket) < MAX_WITNESS_PER_KEY:
            bucket.append(
                {
                    "kind": kind,
                    "finding": finding,
                    "detail": str(detail)[:2000],
                    "case": jsonable(case),
                }
            )

    def digest(self, key, observation):
        """Record what was observed for case `key` of this stream (compared between shard 0 and its mirror)."""
        if self.stream == 0:
            self.digests[str(key)] = h64(observation if isinstance(observation, str) else canon(observation))

    def ordered(self, cases):
        """Cases with their indices, in stream order (reversed in the mirror shard)."""
        pairs = list(enumerate(cases))
        return list(reversed(pairs)) if self.mirror else pairs

    def inconclusive_reason(self, reason):
        if reason not in self.inconclusive:
            self.inconclusive.append(reason)

    def tmpdir(self):
        if self.workdir is None:
            self.workdir = tempfile.mkdtemp(prefix=f"verif_{self.prop}_")
        return self.workdir

    def cleanup(self):
        if self.workdir:
            shutil.rmtree(self.workdir, ignore_errors=True)
            self.workdir = None

    def report(self):
        return {
            "evaluations": self.evaluations,
            "counters": self.counters,
            "samples": self.samples,
            "witnesses": self.witnesses,
            "witness_counts": self.witness_counts,
            "inconclusive": self.inconclusive,
            "digests": self.digests,
            "mirror": self.mirror,
        }


def load_check(prop):
    return importlib.import_module(f"vlib.checks.{prop.lower()}")


def load_findings():
    path = os.path.join(VERIF_DIR, "known_findings.json")
    with open(path, encoding="utf8") as handle:
        data = json.load(handle)
    return {entry["id"]: entry for entry in data["findings"]}


# --------------------------------------------------------------------------
# worker


def resolve_anchor(spec):
    """'pkg.module:Class.attr' -> function object (properties, classmethods, wrappers unwrapped)."""
    module_name, _, qual = spec.partition(":")
    obj = importlib.import_module(module_name)
    for part in qual.split("."):
        holder = obj
        obj = holder.__dict__[part] if isinstance(holder, type) and part in holder.__dict__ else getattr(holder, part)
    if isinstance(obj, property):
        obj = obj.fget
    if isinstance(obj, (classmethod, staticmethod)):
        obj = obj.__func__
    obj = getattr(obj, "__func__", obj)
    while hasattr(obj, "__wrapped__"):
        obj = obj.__wrapped__
    return obj


def start_reach(mod):
    """First-hit reach counters (sys.monitoring PY_START + DISABLE) on the functions a check anchors."""
    anchors = getattr(mod, "ANCHORS", None)
    if not anchors:
        return None
    from vlib import monitors  # pylint: disable=import-outside-toplevel

    functions = {}
    for spec in anchors:
        functions[spec.split(":", 1)[1]] = resolve_anchor(spec)
    counter = monitors.ReachCounter(functions)
    counter.start()
    return counter


def worker_main(args):
    faulthandler.enable()
    sys.setrecursionlimit(1000)
    mod = load_check(args.prop)
    plan = mod.plan(args.tier)
    ctx = Ctx(args.prop, args.tier, args.seed, args.shard, args.nshards, plan, mirror=args.mirror)
    status = "ok"
    reach = None
    cover = None
    if os.environ.get("VERIF_COVERAGE"):
        # developer aid (tools/coverage_report.sh): which lines of statham the workload of a check drives;
        # must start before statham is imported so that module-level lines count
        import coverage  # pylint: disable=import-outside-toplevel

        cover = coverage.Coverage(data_file=os.path.join(os.environ["VERIF_COVERAGE"], f"cov.{args.prop}"),
                                  data_suffix=True, branch=True,
                                  source=[os.path.join(bootstrap.REPO, "statham")])
        cover.start()
    try:
        bootstrap.import_statham()
        reach = start_reach(mod)
        mod.run_shard(ctx)
    except bootstrap.Inconclusive as exc:
        ctx.inconclusive_reason(str(exc))
    except BaseException:  # pylint: disable=broad-except
        status = "crash"
        ctx.inconclusive_reason(
            "harness error in shard %d: %s" % (args.shard, traceback.format_exc()[-2500:])
        )
    finally:
        if cover is not None:
            cover.stop()
            cover.save()
        ctx.cleanup()
        if reach is not None:
            try:
                reach.stop()
                for label in reach.names.values():
                    ctx.count("reach." + label, 1 if label in reach.hit else 0)
            except Exception:  # pylint: disable=broad-except
                pass
    rep = ctx.report()
    rep["status"] = status
    with open(args.out + ".keys", "wb") as handle:
        array.array("Q", sorted(ctx.keys)).tofile(handle)
    with open(args.out, "w", encoding="utf8") as handle:
        json.dump(rep, handle)
    return 0


# --------------------------------------------------------------------------
# driver


def _spawn(prop, tier, seed, shard, nshards, out, timeout, hashseed="0", mirror=False):
    env = dict(os.environ)
    env["PYTHONHASHSEED"] = hashseed
    env["PYTHONDONTWRITEBYTECODE"] = "1"
    env.setdefault("VERIF_REPO", bootstrap.REPO)
    cmd = [
        bootstrap.PYTHON, "-X", "faulthandler", "-m", "vlib.runner", prop,
        "--tier", tier, "--shard", str(shard), "--nshards", str(nshards),
        "--seed", str(seed), "--out", out,
    ] + (["--mirror"] if mirror else [])
    try:
        proc = subprocess.run(
            cmd, cwd=VERIF_DIR, env=env, timeout=timeout,
            capture_output=True, text=True,
        )
        return proc.returncode, (proc.stdout + proc.stderr)[-3000:]
    except subprocess.TimeoutExpired:
        return "timeout", ""


def write_replay(prop, witness, seed, tier):
    body = {
        "property": prop,
        "kind": witness["kind"],
        "finding": witness["finding"],
        "detail": witness["detail"],
        "case": witness["case"],
        "seed": seed,
        "tier": tier,
    }
    text = json.dumps(body, indent=1, sort_keys=True)
    digest = hashlib.sha256(text.encode()).hexdigest()[:16]
    directory = os.path.join(VERIF_DIR, "replays", prop)
    os.makedirs(directory, exist_ok=True)
    path = os.path.join(directory, digest + ".json")
    with open(path, "w", encoding="utf8") as handle:
        handle.write(text)
    return os.path.relpath(path, VERIF_DIR)


def driver_main(args):
    start = time.time()
    prop = args.prop
    mod = load_check(prop)
    tier = args.tier
    seed = args.seed
    plan = mod.plan(tier)
    nshards = plan["shards"]
    timeout = plan.get("timeout", 600)
    if getattr(mod, "NEEDS_JSONSCHEMA", False):
        if not bootstrap.ensure_deps():
            print(f"INCONCLUSIVE property={prop} offline install of jsonschema failed")
            return 2
    scratch = tempfile.mkdtemp(prefix=f"verif_drv_{prop}_")
    merged = {
        "evaluations": 0, "counters": {}, "samples": [], "witnesses": {},
        "witness_counts": {}, "inconclusive": [],
    }
    keys = set()
    try:
        outs = [os.path.join(scratch, f"s{idx}.json") for idx in range(nshards)]
        workers = min(int(os.environ.get("VERIF_JOBS", "16")), nshards)
        with ThreadPoolExecutor(max_workers=workers) as pool:
            mirror_shard = nshards - 1 if plan.get("mirror") and nshards > 1 else None
            futures = [
                pool.submit(_spawn, prop, tier, seed, idx, nshards, outs[idx], timeout, "0",
                            idx == mirror_shard)
                for idx in range(nshards)
            ]
            results = [fut.result() for fut in futures]
        for idx, (code, tail) in enumerate(results):
            if code == "timeout":
                merged["inconclusive"].append(
                    f"shard {idx} hit the {timeout}s wall-clock watchdog"
                )
                continue
            if not os.path.exists(outs[idx]):
                merged["inconclusive"].append(
                    f"shard {idx} died (exit {code}) without a report: {tail[-800:]}"
                )
                continue
            with open(outs[idx], encoding="utf8") as handle:
                rep = json.load(handle)
            merged["evaluations"] += rep["evaluations"]
            for name, val in rep["counters"].items():
                merged["counters"][name] = merged["counters"].get(name, 0) + val
            for sample in rep["samples"]:
                if len(merged["samples"]) < MAX_SAMPLES and (
                    idx < 2 or len(merged["samples"]) < MAX_SAMPLES // 2
                ):
                    merged["samples"].append(sample)
            for key, items in rep["witnesses"].items():
                bucket = merged["witnesses"].setdefault(key, [])
                bucket.extend(items[: max(0, MAX_WITNESS_PER_KEY - len(bucket))])
            for key, val in rep["witness_counts"].items():
                merged["witness_counts"][key] = merged["witness_counts"].get(key, 0) + val
            for reason in rep["inconclusive"]:
                if reason not in merged["inconclusive"]:
                    merged["inconclusive"].append(reason)
            if rep.get("digests"):
                merged.setdefault("digests", {})["mirror" if rep.get("mirror") else "forward"] = rep["digests"]
            arr = array.array("Q")
            with open(outs[idx] + ".keys", "rb") as handle:
                arr.frombytes(handle.read())
            keys.update(arr)
    finally:
        shutil.rmtree(scratch, ignore_errors=True)
    compare_histories(merged, plan)
    return conclude(mod, prop, tier, seed, merged, len(keys), time.time() - start)


def compare_histories(merged, plan):
    """Process-history independence: shard 0 and its mirror saw the same cases in opposite order."""
    if not plan.get("mirror"):
        return
    digests = merged.get("digests", {})
    forward, mirror = digests.get("forward"), digests.get("mirror")
    counters = merged["counters"]
    if not forward or not mirror:
        merged["inconclusive"].append("mirror shard produced no digests to compare")
        return
    common = sorted(set(forward) & set(mirror), key=lambda k: (len(k), k))
    counters["history.cases_compared_across_processes"] = len(common)
    differing = [key for key in common if forward[key] != mirror[key]]
    if len(common) < max(4, min(len(forward), len(mirror)) // 2):
        merged["inconclusive"].append("mirror shard and shard 0 share too few cases")
    if differing:
        key = "UNLISTED|depends_on_process_history"
        merged["witness_counts"][key] = merged["witness_counts"].get(key, 0) + len(differing)
        merged["witnesses"].setdefault(key, []).append({
            "kind": "depends_on_process_history", "finding": None,
            "detail": (f"{len(differing)} of {len(common)} cases were observed differently by a process that "
                       f"handled the same cases in reverse order; first case indices: {differing[:8]}"),
            "case": {"stream": 0, "case_indices": differing[:20],
                     "note": "re-run the check with the same VERIF_SEED: shard 0 and the mirror shard"},
        })


def conclude(mod, prop, tier, seed, merged, distinct, wall, replaying=False):
    findings = load_findings()
    counters = merged["counters"]
    required = list(getattr(mod, "REQUIRED_COUNTERS", [])) + [
        "reach." + spec.split(":", 1)[1] for spec in getattr(mod, "ANCHORS", [])
    ]
    for name in required:
        if not replaying and counters.get(name, 0) <= 0:
            merged["inconclusive"].append(
                f"required observation '{name}' was made 0 times"
            )
    if not replaying and merged["evaluations"] <= 0:
        merged["inconclusive"].append("no case was evaluated")
    if not replaying and distinct < 2:
        merged["inconclusive"].append("fewer than two distinct non-trivial cases")
    if not replaying and not merged["samples"]:
        merged["inconclusive"].append("the run recorded no sample case")
    lines = []
    violations = 0
    known = {}
    for key, count in sorted(merged["witness_counts"].items()):
        fid, kind = key.split("|", 1)
        entry = findings.get(fid)
        if entry and entry.get("status") == "open" and entry.get("property") and (
            prop in entry["property"]
        ):
            known[fid] = known.get(fid, 0) + count
            continue
        violations += count
        for witness in merged["witnesses"].get(key, [])[:2]:
            path = write_replay(prop, witness, seed, tier)
            lines.append(f"VIOLATION property={prop} replay={path}")
            lines.append(f"  kind={kind} n={count} detail={witness['detail'][:400]}")
    for fid, count in sorted(known.items()):
        entry = findings[fid]
        lines.append(
            f"KNOWN-FINDING: property={prop} {fid} {entry['mechanism']} "
            f"({count} occurrences this run)"
        )
    if not replaying:
        evidence = {
            "property_id": prop,
            "tier": tier,
            "seed": seed,
            "level": "exploration",
            "coverage": {
                "evaluations": merged["evaluations"],
                "distinct_nontrivial": distinct,
                "rule": getattr(mod, "RULE", ""),
                "samples": merged["samples"] or [],
                "exhaustive": False,
                "exhaustive_subspaces": getattr(mod, "EXHAUSTIVE_SUBSPACES", {}).get(tier, []),
                "observed": dict(sorted(counters.items())),
                "required_observations": required,
                "anchor_functions_reached": sorted(
                    name[6:] for name, val in counters.items() if name.startswith("reach.") and val > 0),
                "known_findings_seen": known,
                "inconclusive_reasons": merged["inconclusive"],
                "technique": getattr(mod, "TECHNIQUE", ""),
            },
            "assumptions": getattr(mod, "ASSUMPTIONS", []),
            "wall_s": round(wall, 2),
            "violations": violations,
        }
        # evidence is only ever about /repo itself; runs against a scratch copy
        # (mutant validation, VERIF_REPO=...) write to a git-ignored directory
        evidence_dir = "evidence" if bootstrap.REPO == "/repo" else "evidence_scratch"
        os.makedirs(os.path.join(VERIF_DIR, evidence_dir), exist_ok=True)
        with open(
            os.path.join(VERIF_DIR, evidence_dir, f"{prop}.json"), "w", encoding="utf8"
        ) as handle:
            json.dump(evidence, handle, indent=1, sort_keys=True)
            handle.write("\n")
    for line in lines:
        print(line)
    summary = (
        f"property={prop} tier={tier} seed={seed} evaluations={merged['evaluations']} "
        f"distinct_nontrivial={distinct} violations={violations} "
        f"known={sum(known.values())} wall={wall:.1f}s"
    )
    if violations:
        print("RESULT violated " + summary)
        return 1
    if merged["inconclusive"]:
        for reason in merged["inconclusive"][:10]:
            print(f"INCONCLUSIVE property={prop} {reason}")
        print("RESULT inconclusive " + summary)
        return 2
    print("RESULT held " + summary)
    return 0


def replay_main(args):
    prop = args.prop
    mod = load_check(prop)
    path = args.replay
    if not os.path.isabs(path):
        path = os.path.join(VERIF_DIR, path)
    with open(path, encoding="utf8") as handle:
        body = json.load(handle)
    if getattr(mod, "NEEDS_JSONSCHEMA", False):
        bootstrap.ensure_deps()
    if isinstance(body.get("case"), dict) and "case_indices" in body["case"]:
        # a process-history witness is a property of two processes, not of one case: replay = the same
        # seed and tier again (shard 0 and its mirror are deterministic functions of them)
        args.tier = body.get("tier", "quick") if body.get("tier") in ("quick", "thorough") else "quick"
        args.seed = body.get("seed", 0)
        return driver_main(args)
    faulthandler.enable()
    bootstrap.import_statham()
    ctx = Ctx(prop, body.get("tier", "quick"), body.get("seed", 0), 0, 1, mod.plan("quick"))
    ctx.replay_mode = True
    start = time.time()
    try:
        mod.replay(unjsonable(body["case"]), ctx)
    finally:
        ctx.cleanup()
    rep = ctx.report()
    merged = {
        "evaluations": rep["evaluations"], "counters": rep["counters"],
        "samples": rep["samples"], "witnesses": rep["witnesses"],
        "witness_counts": rep["witness_counts"], "inconclusive": rep["inconclusive"],
    }
    code = conclude(
        mod, prop, "replay", body.get("seed", 0), merged, len(ctx.keys),
        time.time() - start, replaying=True,
    )
    return code


def main(argv=None):
    parser = argparse.ArgumentParser()
    parser.add_argument("prop", nargs="?")
    parser.add_argument("--tier", default=os.environ.get("VERIF_TIER", "quick"),
                        choices=["quick", "thorough"])
    parser.add_argument("--seed", type=int, default=int(os.environ.get("VERIF_SEED", "0")))
    parser.add_argument("--shard", type=int, default=None)
    parser.add_argument("--nshards", type=int, default=1)
    parser.add_argument("--out", default=None)
    parser.add_argument("--mirror", action="store_true")
    parser.add_argument("--replay", default=None)
    parser.add_argument("--setup", action="store_true")
    args = parser.parse_args(argv)
    if args.setup:
        ok = bootstrap.ensure_deps()
        import compileall  # pylint: disable=import-outside-toplevel

        compileall.compile_dir(os.path.join(VERIF_DIR, "vlib"), quiet=1)
        bootstrap.import_statham()
        print("setup ok" if ok else "setup: jsonschema install failed")
        return 0 if ok else 1
    if not args.prop:
        parser.error("property id required")
    args.prop = args.prop.upper()
    if args.replay:
        return replay_main(args)
    if args.shard is not None:
        return worker_main(args)
    return driver_main(args)


if __name__ == "__main__":
    sys.exit(main())
