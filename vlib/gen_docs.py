"""Multi-file schema documents with $ref sharing, titles, descriptions.

`gen_doc` returns {"files": {name: body}, "entry": name, "all_titled": bool}.
`resolve` inlines every $ref (acyclic documents) without json_ref_dict, so the
reference model gets a plain schema.
"""
import copy
import json
import os

from vlib import gen_schemas as gs
from vlib import gen_values as gv

SAFE_TITLES = ["Thing", "other thing", "my_model", "Widget", "Item", "Pet", "Owner", "Leaf", "Node Type",
               "A", "B1", "snake_case", "camelCase", "Kebab-Case", "with 2 digits", "Zed"]
F22_TITLES = ["Object", "String", "Any", "List", "Property", "Maybe", "any of", "Union", "Array", "Element",
              "None", "!!!", "1abc", "é"]
DESCRIPTIONS_PLAIN = ["A plain description.", "two words", "Sentence one. Sentence two.", "x"]
DESCRIPTIONS_HOSTILE = [
    'say "hi"', "it's", 'ends with quote"', 'triple """ inside', "back\\slash", "ends with backslash\\",
    "new\nline", "tab\there", "ünï cödé 日本", "", " leading space", "trailing space ", "\\n literal",
    "  indented first line\n  second line", "ends with newline\n", "\n\nblank lines around\n\n", "tab\tinside and    spaces",
    "one line of far more than seventy-six characters, with blanks in it and  double  blanks too, which no formatter may fold: " + "word " * 30,
    ("paragraph one is long enough to be wrapped by anything that wraps at eighty columns or so, really.\n\n"
     "    indented paragraph two, also quite long, so that a re-flow would join or split it somewhere else."),
    "lone \ud800 surrogate", "\udfff", "pair reversed \udc00\ud800 x",
    "astral \U0001F600 and back\\slash", "astral \U00010348 ends with quote\"", "\U0001F600", "bmp edge \uffff\ufffe \"\"\" x",
    "percent %s {brace}", "'''", "\"", "\\", "a\\\"b", "carriage\rreturn", "\x0bvertical", "nul\x00byte",
]


class DocGen:
    def __init__(self, rng, serial, names=None, hostile_descriptions=False, f22_titles=0.0,
                 untitled=0.5, cross_file=0.4, defaults=0.15, formats=False, lookalikes=True, coincident_names=0.0):
        self.rng = rng
        self.serial = serial
        self.names = names or (gs.PLAIN_NAMES + gs.RENAMING_NAMES)
        self.hostile_descriptions = hostile_descriptions
        self.f22_titles = f22_titles
        self.untitled = untitled
        self.cross_file = cross_file
        self.defaults = defaults
        self.formats = formats
        self.lookalikes = lookalikes
        self.coincident_names = coincident_names
        self.coincident_used = 0
        self.title_count = 0
        self.objects = []  # object schemas created so far (for duplication)
        self.all_titled = True
        self.uniq = 0

    def title(self):
        rng = self.rng
        if rng.random() < self.f22_titles:
            return rng.choice(F22_TITLES)
        self.title_count += 1
        base = rng.choice(SAFE_TITLES)
        return f"{base} {self.title_count}" if rng.random() < 0.7 else f"{base}{self.title_count}x"

    def description(self):
        rng = self.rng
        if self.hostile_descriptions and rng.random() < 0.7:
            return rng.choice(DESCRIPTIONS_HOSTILE)
        return rng.choice(DESCRIPTIONS_PLAIN)

    def leaf(self):
        return gs.leaf(self.rng)

    def object_schema(self, depth, refs):
        """A typed object schema; sometimes a deliberate duplicate of an earlier one."""
        rng = self.rng
        if self.objects and rng.random() < 0.25:
            earlier = rng.choice(self.objects)
            if rng.random() < 0.5:
                return copy.deepcopy(earlier)  # same title, same body -> one class
            variant = copy.deepcopy(earlier)  # same title, different body -> numbered class
            self.uniq += 1
            variant["required"] = list(variant.get("required", [])) + [f"zz{self.uniq}"]
            self.objects.append(variant)
            return variant
        out = {"type": "object"}
        if rng.random() < self.untitled:
            self.all_titled = False
        else:
            out["title"] = self.title()
        if rng.random() < 0.5:
            out["description"] = self.description()
        names = rng.sample(self.names, k=rng.randint(0, 3))
        if rng.random() < self.coincident_names:
            # member names that COINCIDE with something else in the generated module or in the library: the
            # name of a class of this document, a name the module imports, the private-name prefix of the class
            # itself, the labeller's annotation key
            from vlib.checks.c12 import expected_class_name  # pylint: disable=import-outside-toplevel

            own = expected_class_name(out["title"]) if isinstance(out.get("title"), str) else ""
            others = [expected_class_name(o["title"]) for o in self.objects if isinstance(o.get("title"), str)]
            pool = ["String", "Property", "Maybe", "List", "Object", "Array", "Element", "Any", "Union", "Integer",
                    "_x_autotitle"] + [name for name in others if name] + ([f"_{own}__id", own] if own else [])
            extra = rng.choice(pool)
            if extra and extra not in names:
                names = [extra] + names if rng.random() < 0.5 else names + [extra]
                self.coincident_used += 1
        if names:
            out["properties"] = {}
            for name in names:
                prop = self.sub(depth - 1, refs)
                if isinstance(prop, dict) and "$ref" not in prop and rng.random() < self.defaults:
                    prop["default"] = gs.literal(rng, gs.Opts(lookalike_literals=self.lookalikes), 1)
                out["properties"][name] = prop
        if rng.random() < 0.4:
            pool = names + ["zz"]
            out["required"] = list(dict.fromkeys(rng.sample(pool, k=rng.randint(1, min(2, len(pool))))))
        roll = rng.random()
        if roll < 0.25:
            out["additionalProperties"] = False
        elif roll < 0.4:
            out["additionalProperties"] = self.sub(depth - 1, refs)
        if rng.random() < 0.2:
            out["patternProperties"] = {rng.choice(sorted(gv.PATTERNS)): self.sub(depth - 1, refs)}
        if rng.random() < 0.15:
            out["minProperties"] = rng.choice([0, 1])
        if rng.random() < 0.1:
            out["dependencies"] = {rng.choice(names + ["zz"]): rng.choice([["zz"], self.leaf()])}
        if rng.random() < self.defaults:
            out["default"] = rng.choice([{}, {"zz": 1}])
        self.objects.append(out)
        return out

    def sub(self, depth, refs):
        rng = self.rng
        roll = rng.random()
        if refs and roll < 0.3:
            return {"$ref": rng.choice(refs)}
        if depth <= 0 or roll < 0.5:
            return self.leaf()
        if roll < 0.7:
            return self.object_schema(depth, refs)
        if roll < 0.8:
            return {"type": "array", "items": self.sub(depth - 1, refs)}
        if roll < 0.86:
            return {"type": "array", "items": [self.sub(depth - 1, refs), self.leaf()],
                    "additionalItems": rng.choice([False, True, self.leaf()])}
        if roll < 0.94:
            key = rng.choice(["anyOf", "oneOf", "allOf"])
            return {key: [self.sub(depth - 1, refs) for _ in range(rng.randint(1, 3))]}
        if roll < 0.97:
            return {"type": ["object", "null"], "title": self.title(),
                    "properties": {rng.choice(self.names): self.leaf()}}
        return {"not": self.leaf()}

    def doc(self):
        rng = self.rng
        main = f"d{self.serial}_main.json"
        other = f"d{self.serial}_other.json"
        files = {}
        other_refs = []
        if rng.random() < self.cross_file:
            defs = {}
            for idx in range(rng.randint(1, 3)):
                local = [f"#/definitions/o{j}" for j in range(idx)]
                defs[f"o{idx}"] = self.object_schema(2, local) if rng.random() < 0.6 else self.sub(1, local)
            files[other] = {"definitions": defs}
            other_refs = [f"{other}#/definitions/{name}" for name in defs]
        defs = {}
        for idx in range(rng.randint(0, 4)):
            local = [f"#/definitions/m{j}" for j in range(idx)] + other_refs
            roll = rng.random()
            if local and roll < 0.15:
                defs[f"m{idx}"] = {"$ref": rng.choice(local)}  # chained reference
            elif roll < 0.7:
                defs[f"m{idx}"] = self.object_schema(2, local)
            else:
                defs[f"m{idx}"] = self.sub(1, local)
        refs = [f"#/definitions/{name}" for name in defs] + other_refs
        root = self.object_schema(3, refs) if rng.random() < 0.8 else self.sub(2, refs)
        if not isinstance(root, dict) or "$ref" in root:
            root = {"allOf": [root]}
        root = dict(root)
        if isinstance(root.get("properties"), dict) and rng.random() < 0.3:
            # look-alike siblings: equal containers holding object schemas of the same shape under different
            # names (a walk that remembers what it has seen by equality instead of identity skips the second)
            body = {"type": "object", "properties": {"street": {"type": "string"}, "no": {"type": "integer"}},
                    "required": ["street"]}
            titled = rng.random() < 0.5
            for name in ("shipping_addresses", "billing_addresses"):
                inner = copy.deepcopy(body)
                if titled:
                    inner["title"] = name.split("_")[0] + " address " + str(self.serial)
                else:
                    self.all_titled = False
                wrapper = rng.choice(["array", "array", "anyOf"])
                root["properties"][name] = ({"type": "array", "items": inner} if wrapper == "array"
                                            else {"anyOf": [inner, {"type": "null"}]})
        if isinstance(root.get("properties"), dict):
            roll = rng.random()
            if roll < 0.10:
                # numbering that runs past one digit (and past 32): many DIFFERENT objects under one title
                count = rng.choice([12, 13, 34, 40])
                only_definitions = rng.random() < 0.5
                for idx in range(count):
                    member = {"type": "object", "title": f"Entry {self.serial}", "required": [f"f{idx}"],
                              "properties": {f"f{idx}": {"type": "integer"}}}
                    if only_definitions:
                        defs[f"e{idx:02d}"] = member      # reachable through "definitions" alone
                    else:
                        root["properties"][f"m{idx:02d}"] = member
            elif roll < 0.17:
                # one keyword holding more members than anything hand-written
                root["properties"]["big_enum"] = {"enum": [f"v{idx:03d}" if idx % 2 else idx for idx in range(70)]}
                root["properties"]["big_tuple"] = {"type": "array", "items": [{"const": idx} for idx in range(66)]}
            elif roll < 0.24:
                # names longer than any line limit, sharing a long prefix, with separators a splitter may trip on
                prefix = "http://example.com/claims/" + "segment-" * 8
                for tail in ("alpha", "beta", "gamma, delta", "x" * 90):
                    root["properties"][prefix + tail] = rng.choice([{"type": "string"}, {"type": "integer"}])
                root.setdefault("required", [])
                root["required"] = list(dict.fromkeys(list(root["required"]) + [prefix + "beta"]))
        if defs:
            root["definitions"] = defs
        files[main] = root
        return {"files": files, "entry": main, "all_titled": self.all_titled}


def write_files(doc, directory):
    for name, body in doc["files"].items():
        with open(os.path.join(directory, name), "w", encoding="utf8") as handle:
            json.dump(body, handle)
    return os.path.join(directory, doc["entry"])


def remove_files(doc, directory):
    for name in doc["files"]:
        try:
            os.remove(os.path.join(directory, name))
        except OSError:
            pass


def _pointer(body, pointer):
    node = body
    pointer = pointer.lstrip("#")
    if pointer in ("", "/"):
        return node
    for part in pointer.strip("/").split("/"):
        part = part.replace("~1", "/").replace("~0", "~")
        node = node[int(part)] if isinstance(node, list) else node[part]
    return node


SCHEMA_KEYS = ("additionalItems", "contains", "additionalProperties", "propertyNames", "not")
SCHEMA_LIST_KEYS = ("anyOf", "oneOf", "allOf")
SCHEMA_MAP_KEYS = ("properties", "patternProperties", "definitions")


def resolve(doc, node=None, current=None, depth=0):
    """Inline all $refs of an (acyclic) multi-file document.  The walk goes by POSITION, never by the
    spelling of a key: a property may be called "enum", "default" or "definitions"."""
    if depth > 80:
        raise RecursionError("cyclic document")
    current = doc["entry"] if current is None else current
    node = doc["files"][current] if node is None else node
    if not isinstance(node, dict):
        return copy.deepcopy(node)     # boolean schema
    if "$ref" in node and isinstance(node["$ref"], str):
        ref = node["$ref"]
        if ref.startswith("#"):
            target_file, pointer = current, ref
        else:
            target_file, _, pointer = ref.partition("#")
        target = _pointer(doc["files"][target_file], pointer)
        return resolve(doc, target, target_file, depth + 1)
    out = {}
    for key, val in node.items():
        if key in SCHEMA_KEYS:
            out[key] = resolve(doc, val, current, depth + 1)
        elif key == "items":
            out[key] = ([resolve(doc, member, current, depth + 1) for member in val] if isinstance(val, list)
                        else resolve(doc, val, current, depth + 1))
        elif key in SCHEMA_LIST_KEYS and isinstance(val, list):
            out[key] = [resolve(doc, member, current, depth + 1) for member in val]
        elif key in SCHEMA_MAP_KEYS and isinstance(val, dict):
            out[key] = {name: resolve(doc, member, current, depth + 1) for name, member in val.items()}
        elif key == "dependencies" and isinstance(val, dict):
            out[key] = {name: (copy.deepcopy(member) if isinstance(member, list)
                               else resolve(doc, member, current, depth + 1)) for name, member in val.items()}
        else:
            out[key] = copy.deepcopy(val)
    return out


def object_schemas(schema, out=None, top=True):
    """Object-typed schemas at interpreted positions of a resolved schema."""
    out = [] if out is None else out
    if not isinstance(schema, dict):
        return out
    types = schema.get("type")
    if types == "object" or (isinstance(types, list) and "object" in types):
        out.append(schema)
    for key, val in schema.items():
        if key in ("properties", "patternProperties", "dependencies") and isinstance(val, dict):
            for sub in val.values():
                object_schemas(sub, out, False)
        elif key == "definitions" and isinstance(val, dict):
            if top:
                for sub in val.values():
                    object_schemas(sub, out, False)
        elif key in ("items", "additionalItems", "contains", "additionalProperties", "propertyNames", "not"):
            if isinstance(val, list):
                for sub in val:
                    object_schemas(sub, out, False)
            else:
                object_schemas(val, out, False)
        elif key in ("anyOf", "oneOf", "allOf") and isinstance(val, list):
            for sub in val:
                object_schemas(sub, out, False)
    return out
