"""C17 - equal elements are interchangeable."""
import copy
import json

from vlib import gen_dsl
from vlib import gen_values as gv
from vlib import refmodel
from vlib.checks.c13 import walk
from vlib.runner import canon

PROPERTY = "C17"
TECHNIQUE = (
    "runtime monitoring: congruence oracle on == - reflexivity, symmetry, equality of independent builds; "
    "for every pair the library calls equal, verdicts over a value batch aimed at the single point of "
    "difference and the serialized JSON Schema (modulo class names) must coincide"
)
RULE = (
    "pair = (element, independent rebuild) or (element, one-point mutant: keyword added / removed / "
    "changed, literal replaced by a lookalike 1/true/1.0, property required / source / key changed, "
    "element class swapped, sub-element replaced); values aimed at the point of difference; non-trivial "
    "= every mutant pair and every rebuild pair with >= 2 nodes; distinct by (spec, mutant spec)"
)
ASSUMPTIONS = [
    "class names are ignored by equality on purpose (the test-suite fixes that), so JSON serializations "
    "are compared after inlining definitions and dropping titles",
    "F11 (bool/number lookalike literals compare equal under Python ==) is attributed only when the "
    "pair differs in exactly one literal and that difference is a bool-vs-number lookalike",
]
MUTATIONS = [
    "base_changed", "kw_changed", "kw_added", "kw_removed", "literal_lookalike", "prop_required", "prop_source", "prop_key",
    "class_swapped", "sub_replaced", "elements_reordered", "prop_removed",
]
REQUIRED_COUNTERS = ["pairs.alias_vs_copies", "parsed_copies.equal", "parsed.trivial_composition_with_default", "pairs.rebuild", "pairs.rebuild_one_used", "pairs.root_is_subclass", "pairs.mutant", "equal.true", "equal.false", "equal_pairs.values_compared",
                     "equal_pairs.json_compared", "reflexive", "symmetric"] + [f"mut.{m}" for m in MUTATIONS]

ANCHORS = [
    "statham.schema.elements.base:Element.__eq__",
    "statham.schema.property:_Property.__eq__",
]


def plan(tier):
    if tier == "quick":
        return {"shards": 16, "specs": 130, "mutants": 3, "values": 8, "timeout": 900}
    return {"shards": 16, "specs": 6000, "mutants": 4, "values": 10, "timeout": 7200}


def lookalike_of(rng, value):
    if value is True:
        return rng.choice([1, 1.0])
    if value is False:
        return rng.choice([0, 0.0])
    if isinstance(value, int) and value in (0, 1):
        return rng.choice([bool(value), float(value)])
    if isinstance(value, float) and value in (0.0, 1.0):
        return rng.choice([bool(value), int(value)])
    if isinstance(value, int):
        return float(value)
    if isinstance(value, float) and value == int(value):
        return int(value)
    if isinstance(value, list) and value:
        out = list(value)
        idx = rng.randrange(len(out))
        new = lookalike_of(rng, out[idx])
        if new is None:
            return None
        out[idx] = new
        return out
    if isinstance(value, dict) and value:
        key = rng.choice(sorted(value))
        new = lookalike_of(rng, value[key])
        if new is None:
            return None
        return {**value, key: new}
    return None


def is_bool_number_swap(left, right):
    """Do two literals differ only by bool<->number lookalikes?"""
    if isinstance(left, bool) != isinstance(right, bool):
        try:
            return left == right
        except Exception:  # pylint: disable=broad-except
            return False
    if isinstance(left, list) and isinstance(right, list) and len(left) == len(right):
        diffs = [(a, b) for a, b in zip(left, right) if canon(a) != canon(b)]
        return bool(diffs) and all(is_bool_number_swap(a, b) for a, b in diffs)
    if isinstance(left, dict) and isinstance(right, dict) and set(left) == set(right):
        diffs = [(left[k], right[k]) for k in left if canon(left[k]) != canon(right[k])]
        return bool(diffs) and all(is_bool_number_swap(a, b) for a, b in diffs)
    return False


SCALAR_KW_FOR_BASE = {
    "minProperties": lambda rng: rng.choice([1, 2, 3]), "maxProperties": lambda rng: rng.choice([0, 1, 2]),
    "required": lambda rng: rng.sample(["a", "b", "zz"], k=rng.randint(1, 2)),
    "enum": lambda rng: [{}, {"a": 1}], "const": lambda rng: rng.choice([{}, {"a": 1}]),
}


def crossable_dicts(kw, depth=0):
    """(container, key) of every dict with two or more members, not all alike, in the keyword values of a node
    (object literals, `patternProperties`, `dependencies`), so that the mutation can replace it in place."""
    out = []
    items = kw.items() if isinstance(kw, dict) else enumerate(kw)
    for key, val in items:
        if depth == 0 and key == "properties":
            continue
        if isinstance(val, dict) and "t" not in val:
            if len(val) >= 2 and len({canon(v) for v in val.values()}) >= 2:
                out.append((kw, key))
            if depth < 2:
                out += crossable_dicts(val, depth + 1)
        elif isinstance(val, list) and depth < 2:
            out += crossable_dicts(val, depth + 1)
    return out


def mutate_spec(rng, spec):
    """One-point mutant of a spec -> (mutant, kind, extra values aimed at the point) or None."""
    from vlib.checks.c13 import SCALAR_KW, allowed_scalar, small_spec  # pylint: disable=import-outside-toplevel

    mutant = copy.deepcopy(spec)
    if mutant.get("t") == "Object" and isinstance(mutant.get("base"), dict) and mutant["base"].get("t") == "Object" \
            and rng.random() < 0.6:
        # same class body, differently configured base class
        base = mutant["base"]
        kw = base.setdefault("kw", {})
        key = rng.choice(["minProperties", "maxProperties", "required", "additionalProperties", "enum", "const"])
        old_val = kw.get(key)
        if key == "additionalProperties":
            kw[key] = not bool(old_val) if isinstance(old_val, bool) or old_val is None else False
        elif key in kw and rng.random() < 0.4:
            del kw[key]
        else:
            kw[key] = SCALAR_KW_FOR_BASE[key](rng)
        if canon(mutant) != canon(spec):
            return mutant, "base_changed", [{}, {"a": 1}, {"a": 1, "b": 2, "zz": 3}, {"zz": 1}]
        mutant = copy.deepcopy(spec)
    nodes = walk(mutant)
    rng.shuffle(nodes)
    for _path, node in nodes[:10]:
        kind = node["t"]
        kw = node.setdefault("kw", {}) if kind != "Nothing" else {}
        options = []
        scal = allowed_scalar(kind) if kind != "Nothing" else []
        present = [k for k in scal if k in kw]
        if present:
            options += ["kw_changed", "kw_removed"]
        if [k for k in scal if k not in kw]:
            options.append("kw_added")
        lits = [k for k in ("const", "enum", "default") if k in kw and lookalike_of(rng, kw[k]) is not None]
        if lits:
            options += ["literal_lookalike"] * 3
        crossed = crossable_dicts(kw)
        if crossed:
            options += ["dict_crossed"] * 3
        holder = node.get("props") if kind == "Object" else kw.get("properties")
        if holder:
            options += ["prop_required", "prop_source", "prop_key", "prop_removed", "sub_replaced"]
        if kind in ("Integer", "Number", "String", "Boolean", "Null", "Element", "Nothing"):
            options.append("class_swapped")
        if kind in ("AnyOf", "OneOf", "AllOf"):
            options += ["sub_replaced", "class_swapped"]
            if len(node["elements"]) > 1:
                options.append("elements_reordered")
        if kind in ("Not", "Array"):
            options.append("sub_replaced")
        if not options:
            continue
        choice = rng.choice(options)
        aimed = []
        if choice == "kw_changed":
            key = rng.choice(present)
            old = kw[key]
            for _ in range(6):
                new = SCALAR_KW[key](rng)
                if canon(new) != canon(old):
                    break
            else:
                continue
            kw[key] = new
            aimed = [old, new] if not isinstance(old, (list, dict)) else []
            if key in ("const", "enum", "default") and is_bool_number_swap(old, new):
                choice = "literal_lookalike"
        elif choice == "kw_removed":
            key = rng.choice(present)
            aimed = [kw[key]] if not isinstance(kw[key], (list, dict)) else []
            del kw[key]
        elif choice == "kw_added":
            key = rng.choice([k for k in scal if k not in kw])
            kw[key] = SCALAR_KW[key](rng)
            aimed = [kw[key]] if not isinstance(kw[key], (list, dict)) else []
        elif choice == "literal_lookalike":
            key = rng.choice(lits)
            old = kw[key]
            new = None
            for _ in range(8):
                new = lookalike_of(rng, old)
                if new is not None:
                    break
            if new is None:
                continue
            kw[key] = new
            if key == "enum":
                aimed = list(old) + list(new)
            else:
                aimed = [old, new]
        elif choice in ("prop_required", "prop_source", "prop_key", "prop_removed"):
            name = rng.choice(sorted(holder))
            pspec = dict(holder[name])
            json_name = pspec["source"] if pspec.get("source") is not None else name
            if choice == "prop_required":
                pspec["required"] = not pspec["required"]
                holder[name] = pspec
                aimed = [{}, {json_name: None}]
            elif choice == "prop_source":
                if pspec.get("source") == "":
                    pspec["source"] = None  # JSON name "" vs JSON name == attribute name
                elif rng.random() < 0.15:
                    pspec["source"] = ""
                else:
                    pspec["source"] = (json_name + "_src") if rng.random() < 0.7 else None
                if pspec["source"] is None and holder[name].get("source") is None:
                    pspec["source"] = name + "2"
                holder[name] = pspec
                aimed = [{json_name: None}, {json_name: 1}, {(pspec["source"] or name): "x"}]
            elif choice == "prop_key":
                new_name = name + "_k"
                if pspec.get("source") is None:
                    pspec["source"] = None
                rebuilt = {}
                for key, val in holder.items():
                    rebuilt[new_name if key == name else key] = pspec if key == name else val
                holder.clear()
                holder.update(rebuilt)
                aimed = [{json_name: None}, {new_name: None}]
            else:
                del holder[name]
                aimed = [{json_name: None}, {json_name: 1}, {json_name: "a"}]
        elif choice == "class_swapped":
            swap = {
                "Integer": "Number", "Number": "Integer", "String": "Element", "Boolean": "Element",
                "Null": "Element", "AnyOf": "OneOf", "OneOf": "AllOf", "AllOf": "AnyOf",
            }
            if kind == "Element":
                if kw:
                    continue
                node.clear()
                node.update({"t": "Nothing"})
            elif kind == "Nothing":
                node.clear()
                node.update({"t": "Element", "kw": {}})
            else:
                node["t"] = swap[kind]
            aimed = [1, 1.5, "a", None, True, [], {}]
        elif choice == "sub_replaced":
            new = small_spec(rng)
            if kind in ("AnyOf", "OneOf", "AllOf"):
                node["elements"][rng.randrange(len(node["elements"]))] = new
            elif kind == "Not":
                node["element"] = new
            elif kind == "Array":
                if isinstance(node["items"], list) and node["items"]:
                    node["items"][rng.randrange(len(node["items"]))] = new
                elif isinstance(node["items"], list):
                    node["items"] = [new]
                else:
                    node["items"] = new
            else:
                name = rng.choice(sorted(holder))
                holder[name] = dict(holder[name], el=new)
        elif choice == "elements_reordered":
            node["elements"] = node["elements"][1:] + node["elements"][:1]
        elif choice == "dict_crossed":
            # the same member names in another order, with the values of two of them exchanged: two coordinated
            # differences which a comparison pairing `.values()` by position takes for none
            parent, key = rng.choice(crossed)
            old = parent[key]
            names = list(old)[::-1]
            new = {name: copy.deepcopy(old[name]) for name in names}
            first, second = [n for n in names if canon(old[n]) != canon(old[names[0]])][:1] + [names[0]]
            new[first], new[second] = new[second], new[first]
            parent[key] = new
            aimed = [copy.deepcopy(old), copy.deepcopy(new)] if not any("t" in v for v in old.values()
                                                                        if isinstance(v, dict)) else []
        from vlib.checks.c13 import dangling  # pylint: disable=import-outside-toplevel

        if canon(mutant) == canon(spec) or dangling(mutant):
            return None
        return mutant, choice, aimed
    return None


def normalise_json(doc):
    """Inline #/definitions refs and drop titles (class names are not part of equality)."""
    defs = doc.get("definitions", {}) if isinstance(doc, dict) else {}

    def walk_doc(node, depth=0):
        if depth > 60:
            return "<deep>"
        if isinstance(node, dict):
            if set(node) == {"$ref"} and node["$ref"].startswith("#/definitions/"):
                target = defs.get(node["$ref"].split("/")[-1])
                if target is None:
                    return {"$dangling": True}
                return walk_doc(target, depth + 1)
            return {k: walk_doc(v, depth + 1) for k, v in node.items() if k not in ("title", "definitions")}
        if isinstance(node, list):
            return [walk_doc(v, depth + 1) for v in node]
        return node

    return walk_doc(doc)


def judge_pair(ctx, sut, left, right, spec_l, spec_r, kind, aimed, values_n):
    case = {"spec": spec_l, "mutant": spec_r, "mutation": kind}
    ctx.evaluation()
    try:
        forward = left == right
        backward = right == left
    except Exception as exc:  # pylint: disable=broad-except
        ctx.witness("eq_raised", case, f"== raised {type(exc).__name__}: {exc!r}")
        return
    ctx.count("symmetric")
    if bool(forward) != bool(backward):
        ctx.witness("asymmetric", case, f"(a == b) is {forward} but (b == a) is {backward}")
        return
    for item in (left, right):
        ctx.count("reflexive")
        try:
            if not item == item:  # pylint: disable=comparison-with-itself
                ctx.witness("irreflexive", case, "a == a is False")
        except Exception as exc:  # pylint: disable=broad-except
            ctx.witness("eq_raised", case, f"a == a raised {exc!r}")
    if kind == "rebuild" and not forward:
        ctx.witness("independent_builds_unequal", case, "two independent builds of one spec compare unequal")
        return
    ctx.count("equal.true" if forward else "equal.false")
    if not forward:
        # "replacing an element by a reference to an EQUAL definition never changes meaning": an element
        # that is NOT equal to the caller's definition must not be replaced by a reference to it
        if not isinstance(left, type) and not isinstance(right, type):
            try:
                doc = sut.serialize_json(sut.Array([left, sut.String()]), definitions={"twin": right})
                ctx.count("unequal_pairs.definition_substitution_checked")
                first_item = (doc.get("items") or [None])[0]
                if isinstance(first_item, dict) and first_item.get("$ref") == "#/definitions/twin":
                    ctx.witness("unequal_but_substituted", case,
                                "a != b, yet serialize_json replaced a by a reference to the definition b")
            except Exception:  # pylint: disable=broad-except
                ctx.count("unequal_pairs.serialize_failed")
        return
    # the library says they are interchangeable: check that they are
    finding = None
    if kind == "literal_lookalike":
        finding = "F11"
    rng = ctx.rng
    values = list(aimed)
    for spec in (spec_l, spec_r):
        schema = gen_dsl.to_schema(spec)
        if isinstance(schema, dict):
            values += gv.batch_for_schema(rng, schema, schema, count=values_n // 2)
    for value in values:
        ctx.count("equal_pairs.values_compared")
        out_l = sut.call(left, copy.deepcopy(value))[0]
        out_r = sut.call(right, copy.deepcopy(value))[0]
        if sut.accepted(out_l) != sut.accepted(out_r):
            ctx.witness("equal_but_different_verdict", {**case, "value": value},
                        f"a == b, but a -> {out_l} and b -> {out_r}", finding=finding)
            return
    try:
        handed_out = sut.serialize_json(left)
        json_l = normalise_json(copy.deepcopy(handed_out))
        json_r = normalise_json(sut.serialize_json(right))
        # the returned document is the caller's: editing it does not make `left` another element
        sut.scribble_json(handed_out)
        still_equal = left == right
        json_again = normalise_json(sut.serialize_json(left))
    except Exception as exc:  # pylint: disable=broad-except
        ctx.count("serialize_failed." + type(exc).__name__)
        return
    ctx.count("equal_pairs.returned_document_scribbled")
    from vlib import refmodel as _refmodel  # pylint: disable=import-outside-toplevel

    if not still_equal or not _refmodel.json_eq(json_again, json_l):
        ctx.witness("equal_until_returned_document_edited", case,
                    "a == b, but after the caller edited the document serialize_json(a) had returned, "
                    f"a == b is {still_equal} and a serializes as {json.dumps(json_again, default=repr)[:250]}")
        return
    ctx.count("equal_pairs.json_compared")
    from vlib import refmodel  # pylint: disable=import-outside-toplevel

    if not refmodel.json_eq(json_l, json_r):
        ctx.witness("equal_but_different_json", case,
                    f"a == b, but they serialize differently: {json.dumps(json_l, default=repr)[:250]} vs "
                    f"{json.dumps(json_r, default=repr)[:250]}", finding=finding)


def strip_ids(node):
    """Deep copy of a spec without node ids (so that two copies build two independent objects)."""
    if isinstance(node, dict):
        return {key: strip_ids(val) for key, val in node.items() if key != "id"}
    if isinstance(node, list):
        return [strip_ids(val) for val in node]
    return node


POISON = [
    {"allOf": [{"title": "Anything"}], "default": 5}, {"oneOf": [{}], "default": "d"}, {"anyOf": [True], "default": [1]},
    {"allOf": [{}, True], "default": {"a": 1}}, {"not": False, "default": 0}, {"type": ["string"], "default": "s"},
    {"properties": {"p": {"allOf": [{}], "default": 1}, "q": {"allOf": [{}]}}},
]


def parsed_copies(ctx, sut, kept):
    """Parsed schemas too: a copy parsed at the START of the process and a copy parsed at the END, after the
    parser has seen many other documents (among them defaults next to compositions of trivial schemas), are
    independently built copies of one schema."""
    for schema, early in kept:
        ctx.evaluation()
        ctx.count("pairs.parsed_early_vs_late")
        try:
            late = sut.parse_direct(copy.deepcopy(schema))
        except Exception as exc:  # pylint: disable=broad-except
            ctx.witness("copies_unequal", {"schema": schema, "kind": "parsed_early_vs_late"},
                        f"the schema parsed at the start no longer parses: {type(exc).__name__}: {exc!r}"[:300])
            continue
        problems = []
        if not (early == late and late == early):
            problems.append(f"early copy {early!r:.150} != late copy {late!r:.150}")
        else:
            try:
                if not refmodel.json_eq(normalise_json(sut.serialize_json(early)), normalise_json(sut.serialize_json(late))):
                    problems.append("equal copies serialize to different JSON")
            except Exception:  # pylint: disable=broad-except
                pass
        if problems:
            ctx.witness("copies_unequal", {"schema": schema, "kind": "parsed_early_vs_late"}, "; ".join(problems))
        else:
            ctx.count("parsed_copies.equal")


def run_shard(ctx):
    from vlib import sut  # pylint: disable=import-outside-toplevel
    from vlib import gen_schemas as gs  # pylint: disable=import-outside-toplevel

    rng = ctx.rng
    kept = []
    for _ in range(12):
        schema, _tag = gs.any_schema(rng, gs.Opts(max_depth=2))
        if isinstance(schema, dict):
            if rng.random() < 0.5:
                schema = {"anyOf": [schema, {"type": "null"}], "oneOf": [{}, False], "title": "Kept"}
            try:
                if refmodel.metaschema_valid(schema):
                    kept.append((copy.deepcopy(schema), sut.parse_direct(copy.deepcopy(schema))))
            except Exception:  # pylint: disable=broad-except
                pass
    for idx in range(ctx.params["specs"]):
        if idx % 25 == 3:
            try:
                sut.parse_direct(copy.deepcopy(POISON[(idx // 25) % len(POISON)]))
                ctx.count("parsed.trivial_composition_with_default")
            except Exception:  # pylint: disable=broad-except
                pass
        gen = gen_dsl.Gen(rng, max_depth=rng.choice([0, 1, 2, 2]), share=0.05, defaults=0.35,
                          inheritance=0.15)
        spec = gen.klass(2) if idx % 3 == 0 else gen.spec()
        if idx % 8 == 5:
            spec = gen.family(2, levels=rng.choice([2, 3]))
            ctx.count("pairs.root_is_subclass")
        if spec["t"] == "ref":
            continue
        try:
            left = gen_dsl.build(spec)
            twin = gen_dsl.build(spec)
        except Exception as exc:  # pylint: disable=broad-except
            ctx.count("build_failed." + type(exc).__name__)
            continue
        ctx.count("pairs.rebuild")
        if idx % 2:
            # one copy has been used (validated against, serialized, printed), the other is fresh: they
            # are still independently built copies of the same schema
            ctx.count("pairs.rebuild_one_used")
            schema = gen_dsl.to_schema(spec)
            warm = gv.batch_for_schema(rng, schema, schema, count=5) if isinstance(schema, dict) else [1, "a"]
            # the other classes of the used copy (bases, nested classes) first, then the copy itself
            from vlib.checks.c08 import tree_classes  # pylint: disable=import-outside-toplevel

            for cls in tree_classes(sut, left):
                if cls is not left:
                    for value in warm[:3]:
                        sut.call(cls, copy.deepcopy(value))
            for value in warm:
                sut.call(left, value)
            for observe in (repr, sut.serialize_json, sut.serialize_python):
                try:
                    observe(left)
                except Exception:  # pylint: disable=broad-except
                    pass
        judge_pair(ctx, sut, left, twin, spec, spec, "rebuild", [], ctx.params["values"])
        if gen_dsl.count_nodes(spec) >= 2:
            ctx.nontrivial(canon([spec, "rebuild"]))
        if idx % 6 == 1:
            # one element OBJECT listed twice in a composition / tuple, against two equal copies of it:
            # equal trees, so the same verdicts (identity of members must not matter)
            child = gen_dsl.Gen(rng, max_depth=1, share=0.0, classes=False).spec(1)
            if child["t"] != "ref":
                child = strip_ids(child)
                kind = rng.choice(["OneOf", "OneOf", "AnyOf", "AllOf", "tuple"])
                shared_child = dict(copy.deepcopy(child), id=77000 + idx)
                if kind == "tuple":
                    alias = {"t": "Array", "kw": {}, "items": [shared_child, {"t": "ref", "id": 77000 + idx}]}
                    copies = {"t": "Array", "kw": {}, "items": [copy.deepcopy(child), copy.deepcopy(child)]}
                else:
                    alias = {"t": kind, "kw": {}, "elements": [shared_child, {"t": "ref", "id": 77000 + idx}]}
                    copies = {"t": kind, "kw": {}, "elements": [copy.deepcopy(child), copy.deepcopy(child)]}
                try:
                    left_a, right_c = gen_dsl.build(alias), gen_dsl.build(copies)
                except Exception as exc:  # pylint: disable=broad-except
                    ctx.count("alias_build_failed." + type(exc).__name__)
                else:
                    ctx.count("pairs.alias_vs_copies")
                    child_schema = gen_dsl.to_schema(child)
                    aimed = [gv.satisfy(rng, child_schema, child_schema) for _ in range(3)] \
                        if isinstance(child_schema, dict) else []
                    aimed += [[a, a] for a in aimed[:2]]
                    judge_pair(ctx, sut, left_a, right_c, alias, copies, "alias_vs_copies", aimed, ctx.params["values"])
        for _ in range(ctx.params["mutants"]):
            made = mutate_spec(rng, spec)
            if not made:
                ctx.count("mutation_not_applicable")
                continue
            mutant, kind, aimed = made
            try:
                right = gen_dsl.build(mutant)
            except Exception as exc:  # pylint: disable=broad-except
                ctx.count("mutant_build_failed." + type(exc).__name__)
                continue
            ctx.count("pairs.mutant")
            ctx.count("mut." + kind)
            ctx.nontrivial(canon([spec, mutant]))
            judge_pair(ctx, sut, left, right, spec, mutant, kind, aimed, ctx.params["values"])
        ctx.sample({"spec": spec}, every=80)
    parsed_copies(ctx, sut, kept)
    # literals that differ only far down (true / 1, false / 0 below many containers): no depth at which the
    # distinction stops
    for number, depth in enumerate([2, 9, 16, 17, 31, 32, 33, 48, 64]):
        if number % ctx.nshards != ctx.shard:
            continue
        for bottom, twin in ((True, 1), (False, 0), (1.0, True)):
            for keyword in ("const", "enum", "default"):
                deep_l, deep_r = bottom, twin
                for level in range(depth):
                    deep_l = [deep_l] if level % 2 else {"k": deep_l}
                    deep_r = [deep_r] if level % 2 else {"k": deep_r}
                spec_l = {"t": "Element", "kw": {keyword: [deep_l] if keyword == "enum" else deep_l}}
                spec_r = {"t": "Element", "kw": {keyword: [deep_r] if keyword == "enum" else deep_r}}
                ctx.count("pairs.deep_literal_lookalikes")
                judge_pair(ctx, sut, gen_dsl.build(spec_l), gen_dsl.build(spec_r), spec_l, spec_r,
                           "deep_literal_lookalike", [deep_l, deep_r], 4)


def replay(case, ctx):
    from vlib import sut  # pylint: disable=import-outside-toplevel

    if case.get("kind") == "parsed_early_vs_late":
        # a process-history witness: parse the schema, then the poison documents, then the schema again
        early = sut.parse_direct(copy.deepcopy(case["schema"]))
        for poison in POISON:
            try:
                sut.parse_direct(copy.deepcopy(poison))
            except Exception:  # pylint: disable=broad-except
                pass
        parsed_copies(ctx, sut, [(case["schema"], early)])
        return
    left = gen_dsl.build(case["spec"])
    right = gen_dsl.build(case["mutant"])
    aimed = [case["value"]] if "value" in case else []
    judge_pair(ctx, sut, left, right, case["spec"], case["mutant"], case.get("mutation", "replay"), aimed, 8)
