"""C07 - defaults and object descriptions survive parsing and serialization."""
import copy
import json
import os

from vlib import gen_docs
from vlib import gen_values as gv
from vlib.runner import canon

PROPERTY = "C07"
TECHNIQUE = (
    "runtime monitoring: literal-preservation oracle - for every (schema shape, position, default) cell "
    "the parsed element at that position, the serialize_json image and the executed serialize_python "
    "image must carry exactly the input literal (type-tagged); controls without default must carry none; "
    "positions sharing one definition must not share defaults; descriptions are compared character for "
    "character with the class description and the generated docstring"
)
RULE = (
    "cell = (shape: untyped / each type / 1- and n-element type list / each composition keyword alone, "
    "with siblings, single-branch, object-branch, false-branch / object class) x (position: root, "
    "properties of a class, properties of an untyped schema, items, tuple items, additionalProperties, "
    "via $ref through a file) x (default in {false, 0, 0.0, \"\", [], {}, null, true, 1, \"x\", nested}); "
    "descriptions from plain and hostile pools; non-trivial = every cell whose default is falsy or whose "
    "shape is not a bare type; distinct by (shape, position, default) / description text"
)
ASSUMPTIONS = [
    "the default of a position is read from the element the parser returns for that position "
    "(composition and type-list shapes are restructured by the parser, the default stays on the "
    "position's top element)",
    "for the JSON image the default is read at the same position after following #/definitions refs; for "
    "the Python image the shape is placed under a property of a generated class and read back from the "
    "executed module",
]
DEFAULTS = [False, 0, 0.0, "", [], {}, None, True, 1, "x", {"a": [0, False, None]}, [[]], -0.0, 1.5]
SHAPES = [
    "untyped", "string", "integer", "number", "boolean", "null", "array", "object", "typelist1", "typelist2",
    "typelist_object", "anyOf", "oneOf", "allOf", "not", "anyOf_siblings", "allOf_siblings", "anyOf_single",
    "allOf_single", "oneOf_object_branch", "allOf_object_single", "anyOf_false", "two_compositions",
    "enum", "const", "untyped_keywords",
]
POSITIONS = ["root", "class_property", "untyped_property", "items", "tuple_item", "additionalProperties",
             "file_ref", "pattern_property", "file_ref_twice"]
REQUIRED_COUNTERS = (
    ["cells", "parsed.default_equal", "json.default_equal", "python.default_equal", "control.no_default",
     "not_shared.checked", "later_visits.default_equal", "descriptions", "descriptions.hostile", "docstring.equal", "falsy_default_cells", "twins.default_stays"]
    + [f"shape.{s}" for s in SHAPES] + [f"pos.{p}" for p in POSITIONS]
)
EXHAUSTIVE_SUBSPACES = {
    "quick": ["26 shapes x 14 defaults at the root position", "26 shapes x 8 positions with a rotating default"],
    "thorough": ["26 shapes x 14 defaults x 8 positions"],
}

ANCHORS = [
    "statham.schema.parser:_parse_composition",
    "statham.schema.parser:_parse_multi_typed",
    "statham.schema.parser:_parse_literal",
    "statham.schema.elements.meta:ObjectMeta.python",
    "statham.schema.elements.object:Object.__init_subclass__",
    "statham.serializers.json:_serialize_element",
]


def plan(tier):
    if tier == "quick":
        return {"shards": 16, "full_matrix": False, "descriptions": 40, "random": 40, "timeout": 900}
    return {"shards": 16, "full_matrix": True, "descriptions": 1200, "random": 3000, "timeout": 7200}


def shape_schema(shape, serial):
    """Schema of a shape (no default yet).  Object titles are unique per use."""
    title = f"Shape{serial}"
    if shape == "untyped":
        return {}
    if shape in ("string", "integer", "number", "boolean", "null"):
        return {"type": shape}
    if shape == "array":
        return {"type": "array", "items": {"type": "string"}}
    if shape == "object":
        return {"type": "object", "title": title, "properties": {"k": {"type": "string"}}}
    if shape == "typelist1":
        return {"type": ["string"], "minLength": 0}
    if shape == "typelist2":
        return {"type": ["string", "integer"]}
    if shape == "typelist_object":
        return {"type": ["object", "null"], "title": title}
    if shape in ("anyOf", "oneOf", "allOf"):
        return {shape: [{"type": "string"}, {"minimum": 3}]}
    if shape == "not":
        return {"not": {"type": "string"}}
    if shape == "anyOf_siblings":
        return {"anyOf": [{"minLength": 1}, {"maxLength": 5}], "type": "string", "pattern": "^a"}
    if shape == "allOf_siblings":
        return {"allOf": [{"minimum": 1}], "type": "integer", "maximum": 10}
    if shape == "anyOf_single":
        return {"anyOf": [{"type": "string", "minLength": 2}]}
    if shape == "allOf_single":
        return {"allOf": [{"type": "integer"}]}
    if shape == "oneOf_object_branch":
        return {"oneOf": [{"type": "object", "title": title, "properties": {"k": {"type": "string"}}},
                          {"type": "null"}]}
    if shape == "allOf_object_single":
        return {"allOf": [{"type": "object", "title": title}]}
    if shape == "anyOf_false":
        return {"anyOf": [False]}
    if shape == "two_compositions":
        return {"anyOf": [{"type": "string"}, {"type": "null"}], "not": {"const": "no"}}
    if shape == "enum":
        return {"enum": [1, "a", None]}
    if shape == "const":
        return {"const": {"k": 1}}
    if shape == "untyped_keywords":
        return {"minimum": 1, "minLength": 2, "items": {"type": "integer"}}
    raise ValueError(shape)


def place(inner, position, serial):
    """(document, path description) with `inner` at `position`; siblings carry no default."""
    host = f"Host{serial}"
    if position == "root":
        return inner
    if position == "class_property":
        return {"type": "object", "title": host, "properties": {"p": inner, "q": {"type": "string"}}}
    if position == "untyped_property":
        return {"properties": {"p": inner, "q": {"type": "string"}}}
    if position == "items":
        return {"type": "array", "items": inner}
    if position == "tuple_item":
        return {"items": [{"type": "string"}, inner]}
    if position == "additionalProperties":
        return {"type": "object", "title": host, "additionalProperties": inner}
    if position == "pattern_property":
        return {"patternProperties": {"^p": inner}}
    if position == "file_ref_twice":
        # one definition referenced from two places (json_ref_dict hands both the SAME dict object, and the
        # definitions tail of parse() visits it a third time): every visit must see the default
        return {"type": "object", "title": host,
                "properties": {"p": {"$ref": "#/definitions/target"}, "q": {"type": "string"},
                               "p2": {"$ref": "#/definitions/target"},
                               "arr": {"type": "array", "items": {"$ref": "#/definitions/target"}}},
                "definitions": {"target": inner}}
    if position == "file_ref":
        return {"type": "object", "title": host,
                "properties": {"p": {"$ref": "#/definitions/target"}, "q": {"$ref": "#/definitions/other"}},
                "definitions": {"target": inner, "other": {"type": "string"}}}
    raise ValueError(position)


def element_at(sut, element, position):
    if position == "root":
        return element
    if position in ("class_property", "untyped_property", "file_ref", "file_ref_twice"):
        return element.properties["p"].element
    if position == "items":
        return element.items
    if position == "tuple_item":
        return element.items[1]
    if position == "additionalProperties":
        return element.additionalProperties
    if position == "pattern_property":
        return element.patternProperties["^p"]
    raise ValueError(position)


def json_at(doc, position):
    """Sub-document at the position, following local refs."""
    def follow(node):
        hops = 0
        while isinstance(node, dict) and set(node) == {"$ref"} and hops < 10:
            name = node["$ref"].split("/")[-1]
            node = doc.get("definitions", {}).get(name, {"$dangling": node["$ref"]})
            hops += 1
        return node

    root = follow(doc)
    if position == "root":
        return root
    if position in ("class_property", "untyped_property", "file_ref", "file_ref_twice"):
        return follow(root.get("properties", {}).get("p"))
    if position == "items":
        return follow(root.get("items"))
    if position == "tuple_item":
        return follow((root.get("items") or [None, None])[1])
    if position == "additionalProperties":
        return follow(root.get("additionalProperties"))
    if position == "pattern_property":
        return follow(root.get("patternProperties", {}).get("^p"))
    raise ValueError(position)


def same(left, right):
    return canon(left) == canon(right)


def check_cell(ctx, sut, shape, position, default, serial, with_default=True):
    inner = shape_schema(shape, serial)
    if with_default:
        inner = dict(inner)
        inner["default"] = copy.deepcopy(default)
    doc = place(inner, position, serial)
    pristine = copy.deepcopy(doc)
    case = {"shape": shape, "position": position, "default": default if with_default else "<none>",
            "schema": pristine}
    ctx.evaluation()
    ctx.count("cells")
    ctx.count("shape." + shape)
    ctx.count("pos." + position)
    falsy = with_default and not default
    if falsy:
        ctx.count("falsy_default_cells")
    if with_default and (falsy or shape not in ("string", "integer", "number", "boolean", "null")):
        ctx.nontrivial(canon([shape, position, default]))
    try:
        if position in ("file_ref", "file_ref_twice"):
            elements = sut.parse_file(copy.deepcopy(doc), ctx.tmpdir(), f"c07_{ctx.shard}_{serial}.json")
            element = elements[0]
        else:
            element = sut.parse_direct(doc)
        target = element_at(sut, element, position)
    except Exception as exc:  # pylint: disable=broad-except
        ctx.witness("parse_or_locate_failed", case, f"{type(exc).__name__}: {exc!r}"[:400])
        return
    got = getattr(target, "default", sut.NotPassed())
    if not with_default:
        if isinstance(got, sut.NotPassed):
            ctx.count("control.no_default")
        else:
            ctx.witness("default_invented", case, f"schema declares no default but the element has {got!r}")
        # the JSON image must not invent one either
        try:
            image = json_at(sut.serialize_json(element), position)
            if isinstance(image, dict) and "default" in image:
                ctx.witness("default_invented_in_json", case, f"serialized position has default {image['default']!r}")
        except Exception:  # pylint: disable=broad-except
            ctx.count("serialize_json_failed_on_control")
        return
    if isinstance(got, sut.NotPassed) or not same(got, default):
        ctx.witness("default_lost_in_parse", case,
                    f"element at {position} has default {got!r}, schema declares {default!r}")
        return
    ctx.count("parsed.default_equal")
    if position == "file_ref_twice":
        # the other visits of the same definition
        others = {"p2": element.properties["p2"].element, "arr.items": element.properties["arr"].element.items}
        if len(elements) > 1:
            others["definitions tail"] = elements[1]
        for label, other in others.items():
            seen = getattr(other, "default", sut.NotPassed())
            if isinstance(seen, sut.NotPassed) or not same(seen, default):
                ctx.witness("default_lost_on_later_visit", case,
                            f"the definition's default is {default!r} but its use at {label} has {seen!r}")
                return
        ctx.count("later_visits.default_equal")
    # siblings must not have received it
    if position in ("class_property", "untyped_property", "file_ref", "file_ref_twice"):
        ctx.count("not_shared.checked")
        sibling = element.properties["q"].element
        if not isinstance(getattr(sibling, "default", sut.NotPassed()), sut.NotPassed):
            ctx.witness("default_moved_to_sibling", case, f"sibling q has default {sibling.default!r}")
        if position != "untyped_property" and not isinstance(element.default, sut.NotPassed):
            ctx.witness("default_moved_to_parent", case, f"the host class has default {element.default!r}")
    # JSON image
    try:
        image_doc = sut.serialize_json(element)
        json.dumps(image_doc)
        image = json_at(image_doc, position)
    except Exception as exc:  # pylint: disable=broad-except
        ctx.witness("serialize_json_failed", case, f"{type(exc).__name__}: {exc!r}"[:300])
        return
    if not isinstance(image, dict) or "default" not in image or not same(image["default"], default):
        ctx.witness("default_lost_in_json", case,
                    f"serialize_json at {position}: {json.dumps(image, default=repr)[:300]}")
        return
    ctx.count("json.default_equal")
    # the document is the caller's: editing it everywhere leaves the element's default what it was
    sut.scribble_json(image_doc)
    kept = getattr(element_at(sut, element, position), "default", sut.NotPassed())
    if isinstance(kept, sut.NotPassed) or not same(kept, default):
        ctx.witness("default_changed_through_returned_document", case,
                    f"after the caller edited the document serialize_json had returned, the element at {position} "
                    f"has default {kept!r} (declared: {default!r})")
        return
    ctx.count("json.returned_document_scribbled")
    # Python image: needs an object class to be emitted; use the host class or wrap
    holder = element if isinstance(element, sut.ObjectMeta) else None
    attr_path = position
    if holder is None or position == "root":
        wrapper = sut.ObjectMeta(f"Wrap{serial}", (sut.Object,), _classdict({"p": sut.Property(element)}))
        holder, attr_path = wrapper, "wrapped"
    try:
        text = sut.serialize_python(holder)
        namespace = {}
        exec(compile(text, "<generated>", "exec"), namespace)  # pylint: disable=exec-used
        regenerated = namespace[holder.__name__]
        if attr_path == "wrapped":
            regen_target = element_at(sut, regenerated.properties["p"].element, position)
        else:
            regen_target = element_at(sut, regenerated, position)
        regen_default = getattr(regen_target, "default", sut.NotPassed())
    except Exception as exc:  # pylint: disable=broad-except
        ctx.witness("python_image_failed", case, f"{type(exc).__name__}: {exc!r}"[:300])
        return
    if isinstance(regen_default, sut.NotPassed) or not same(regen_default, default):
        ctx.witness("default_lost_in_python", case,
                    f"executed serialize_python at {position} has default {regen_default!r}")
        return
    ctx.count("python.default_equal")


def _classdict(props):
    from statham.schema.elements.meta import ObjectClassDict  # pylint: disable=import-outside-toplevel

    out = ObjectClassDict()
    for name, prop in props.items():
        out[name] = prop
    return out


def inline_route(ctx, sut, serial):
    """`Object.inline(name, default=...)` (the constructor the documentation offers for minor models) with every
    falsy JSON default: the class carries it, and so do both serializations."""
    for number, default in enumerate([None, 0, False, "", [], {}, 0.0, {"a": None}, [None]]):
        ctx.evaluation()
        ctx.count("inline_route.cells")
        case = {"shape": "inline", "default": default}
        try:
            cls = sut.Object.inline(f"Inline{serial}x{number}", properties={"p": sut.Property(sut.String())},
                                    default=copy.deepcopy(default))
            got = cls.default
            image = sut.serialize_json(cls)
            namespace = {}
            exec(compile(sut.serialize_python(cls), "<generated>", "exec"), namespace)  # pylint: disable=exec-used
            regenerated = namespace[cls.__name__].default
        except Exception as exc:  # pylint: disable=broad-except
            ctx.witness("inline_route_failed", case, f"{type(exc).__name__}: {exc!r}"[:300])
            continue
        problems = []
        if isinstance(got, sut.NotPassed) or not same(got, default):
            problems.append(f"the class has default {got!r}")
        if not isinstance(image, dict) or "default" not in image or not same(image["default"], default):
            problems.append(f"serialize_json: {json.dumps(image, default=repr)[:150]}")
        if isinstance(regenerated, sut.NotPassed) or not same(regenerated, default):
            problems.append(f"executed serialize_python has default {regenerated!r}")
        if problems:
            ctx.witness("default_lost_on_inline_route", case, f"declared {default!r}: " + "; ".join(problems))
        else:
            ctx.count("inline_route.default_kept")


def shared_definition(ctx, sut, serial, default_a, default_b):
    """Two positions use one definition; each declares its own (or no) default next to the ref."""
    doc = {
        "type": "object", "title": f"Share{serial}",
        "properties": {
            "a": {"allOf": [{"$ref": "#/definitions/s"}], "default": default_a},
            "b": {"allOf": [{"$ref": "#/definitions/s"}], "default": default_b},
            "c": {"allOf": [{"$ref": "#/definitions/s"}]},
            "d": {"$ref": "#/definitions/s"},
        },
        "definitions": {"s": {"type": "string", "minLength": 1}},
    }
    case = {"shape": "shared_definition", "schema": copy.deepcopy(doc)}
    ctx.evaluation()
    ctx.count("not_shared.checked")
    try:
        element = sut.parse_file(doc, ctx.tmpdir(), f"c07s_{ctx.shard}_{serial}.json")[0]
    except Exception as exc:  # pylint: disable=broad-except
        ctx.witness("parse_or_locate_failed", case, f"{type(exc).__name__}: {exc!r}"[:300])
        return
    got = {name: getattr(element.properties[name].element, "default", sut.NotPassed()) for name in "abcd"}
    problems = []
    if isinstance(got["a"], sut.NotPassed) or not same(got["a"], default_a):
        problems.append(f"a has {got['a']!r} instead of {default_a!r}")
    if isinstance(got["b"], sut.NotPassed) or not same(got["b"], default_b):
        problems.append(f"b has {got['b']!r} instead of {default_b!r}")
    for name in "cd":
        if not isinstance(got[name], sut.NotPassed):
            problems.append(f"{name} declares no default but has {got[name]!r}")
    if problems:
        ctx.witness("default_shared_between_positions", case, "; ".join(problems))


VACUOUS_NEIGHBOURS = [{}, {"allOf": [{}]}, {"anyOf": [True]}, {"oneOf": [{}]}, {"required": []}, {"allOf": [{}], "anyOf": [{}]}]


def twin_objects(ctx, sut, serial, default, spelling, plain_first, neighbour=None):
    """Two object schemas with the same title and the same body; exactly one of them declares a default
    (with `type` spelled as a string or as a one-element list).  The default belongs to that one only -
    whichever of the two the parser meets first."""
    body = {"title": f"Twin{serial}", "properties": {"v": {"type": "integer"}}}
    plain = {"type": "object", **copy.deepcopy(body)}
    holder = {"type": ["object"] if spelling == "list" else "object", **copy.deepcopy(body),
              "default": copy.deepcopy(default), **copy.deepcopy(neighbour or {})}
    if neighbour:
        # keywords that constrain nothing next to the default (a composition which collapses)
        ctx.count("twins.vacuous_neighbour")
    props = {"p": plain, "q": holder} if plain_first else {"q": holder, "p": plain}
    doc = {"type": "object", "title": f"TwinRoot{serial}", "properties": props}
    case = {"shape": "twin_objects", "schema": copy.deepcopy(doc)}
    ctx.evaluation()
    ctx.count("twins.checked")
    try:
        element = sut.parse_direct(doc)
        text = sut.serialize_json(element)
    except Exception as exc:  # pylint: disable=broad-except
        ctx.witness("parse_or_locate_failed", case, f"{type(exc).__name__}: {exc!r}"[:300])
        return
    problems = []
    got_plain = getattr(element.properties["p"].element, "default", sut.NotPassed())
    got_holder = getattr(element.properties["q"].element, "default", sut.NotPassed())
    if not isinstance(got_plain, sut.NotPassed):
        problems.append(f"the schema without default now has {got_plain!r}")
    if isinstance(got_holder, sut.NotPassed) or not same(got_holder, default):
        problems.append(f"the schema declaring {default!r} has {got_holder!r}")

    def follow(node):
        while isinstance(node, dict) and "$ref" in node:
            node = text.get("definitions", {}).get(node["$ref"].rsplit("/", 1)[-1], {})
        return node

    json_plain = follow(text.get("properties", {}).get("p", {}))
    json_holder = follow(text.get("properties", {}).get("q", {}))
    if "default" in json_plain:
        problems.append(f"JSON image of the schema without default has {json_plain['default']!r}")
    if "default" not in json_holder or not same(json_holder["default"], default):
        problems.append(f"JSON image of the schema declaring {default!r} has {json_holder.get('default', '<none>')!r}")
    if problems:
        ctx.witness("default_moved_between_twins", case, "; ".join(problems))
    else:
        ctx.count("twins.default_stays")


def annotation_key_literals(ctx, sut, serial):
    """Defaults are JSON values - any member name may occur in them, also the one the title labeller uses
    for its own annotation."""
    for lit in ({"_x_autotitle": "x", "a": 1}, [{"_x_autotitle": 1}], {"a": {"_x_autotitle": None, "b": 2}}):
        ctx.evaluation()
        ctx.count("annotation_key_literals")
        schema = {"type": "object", "title": f"Lit{serial}", "properties": {"p": {"default": copy.deepcopy(lit)}}}
        try:
            element = sut.parse_direct(copy.deepcopy(schema))
            got = element.properties["p"].element.default
        except Exception as exc:  # pylint: disable=broad-except
            ctx.witness("parse_or_locate_failed", {"shape": "annotation_key", "schema": schema}, repr(exc)[:200])
            continue
        if not same(got, lit):
            ctx.witness("default_altered", {"shape": "annotation_key", "schema": schema},
                        f"default {lit!r} parsed as {got!r}", finding="F43")
        else:
            ctx.count("annotation_key_literals.kept")


def nested_defaults(ctx, sut, serial):
    """A composition branch and the schema around it both declare a default."""
    for key in ("allOf", "anyOf", "oneOf"):
        for branches in ([{"type": "string", "default": "inner"}],
                         [{"type": "string", "default": "inner"}, {"type": "integer"}]):
            schema = {key: copy.deepcopy(branches), "default": "outer"}
            ctx.evaluation()
            ctx.count("nested_defaults")
            try:
                element = sut.parse_direct({"type": "object", "title": f"Nest{serial}", "properties": {"p": schema}}
                                           ).properties["p"].element
            except Exception as exc:  # pylint: disable=broad-except
                ctx.witness("parse_or_locate_failed", {"shape": "nested_defaults", "schema": schema}, repr(exc)[:200])
                continue
            outer = getattr(element, "default", sut.NotPassed())
            inner_elements = [el for el in [element] + list(sut.get_children(element)) if isinstance(el, sut.String)]
            inner = getattr(inner_elements[0], "default", sut.NotPassed()) if inner_elements else sut.NotPassed()
            problems = []
            if isinstance(outer, sut.NotPassed) or outer != "outer":
                problems.append(f"the outer schema's default is {outer!r}")
            if len(branches) > 1 and (isinstance(inner, sut.NotPassed) or inner != "inner"):
                problems.append(f"the branch's own default is {inner!r}")
            single_lost = len(branches) == 1 and inner_elements and inner_elements[0] is element and inner != "inner"
            if problems:
                ctx.witness("default_moved_between_nested_schemas", {"shape": "nested_defaults", "schema": schema},
                            "; ".join(problems))
            elif single_lost:
                # the composition reduced to its only branch: ONE element for two schemas, holding the outer
                # default - the branch's own default is gone (known finding F44)
                ctx.witness("default_moved_between_nested_schemas", {"shape": "nested_defaults", "schema": schema},
                            f"the branch declared 'inner' but its element carries {inner!r}", finding="F44")
            else:
                ctx.count("nested_defaults.both_kept")


def description_case(ctx, sut, text, serial, hostile):
    # (the nested object spells its type in one of the ways a document may: the class must carry the
    # description whichever route the parser takes)
    inner_type = ["object", ["object"], ["object", "null"], ["null", "object", "string"]][serial % 4]
    doc = {"type": "object", "title": f"Desc{serial}", "description": text,
           "properties": {"child": {"type": inner_type, "title": f"Inner{serial}", "description": text[::-1]}}}
    ctx.count("descriptions.inner_type." + ("list%d" % len(inner_type) if isinstance(inner_type, list) else "plain"))
    case = {"description": text, "schema": doc}
    ctx.evaluation()
    ctx.count("descriptions")
    if hostile:
        ctx.count("descriptions.hostile")
    ctx.nontrivial("d:" + text)
    try:
        cls = sut.parse_direct(doc)
    except Exception as exc:  # pylint: disable=broad-except
        ctx.witness("parse_or_locate_failed", case, f"{type(exc).__name__}: {exc!r}"[:300])
        return
    if cls.description != text:
        ctx.witness("description_lost_in_parse", case, f"class description is {cls.description!r}")
        return
    try:
        image = sut.serialize_json(cls)
        if image.get("description") != text:
            ctx.witness("description_lost_in_json", case, f"JSON description {image.get('description')!r}")
            return
    except Exception as exc:  # pylint: disable=broad-except
        ctx.witness("serialize_json_failed", case, f"{type(exc).__name__}: {exc!r}"[:300])
        return
    try:
        source = sut.serialize_python(cls)
        namespace = {}
        exec(compile(source, "<generated>", "exec"), namespace)  # pylint: disable=exec-used
        regenerated = namespace[cls.__name__]
        inner = namespace[f"Inner{serial}"]
    except Exception as exc:  # pylint: disable=broad-except
        ctx.witness("generated_module_broken_by_description", case,
                    f"{type(exc).__name__}: {exc!r}"[:300])
        return
    problems = []
    if regenerated.description != text:
        problems.append(f"generated class description {regenerated.description!r}")
    # CPython itself refuses a class whose __doc__ holds a lone surrogate (type.__new__ encodes it): for such
    # a description the docstring half of the statement cannot hold in any implementation, the description
    # half must (counted separately)
    unholdable = any("\ud800" <= char <= "\udfff" for char in text)
    if unholdable:
        ctx.count("docstring.impossible_lone_surrogate")
    if regenerated.__doc__ != text and not unholdable:
        problems.append(f"generated docstring {regenerated.__doc__!r}")
    if inner.description != text[::-1] or (inner.__doc__ != text[::-1] and not unholdable):
        problems.append(f"nested class description/docstring {inner.description!r}/{inner.__doc__!r}")
    if problems:
        ctx.witness("description_lost_in_python", case, "; ".join(problems))
    else:
        ctx.count("docstring.equal")


def random_description(rng):
    pool = "ab \"'\\\n\t{}%é日\r\x00#:\U0001F600\U00010348\ufffe"
    text = "".join(rng.choice(pool) for _ in range(rng.choice([rng.randint(0, 12), rng.randint(40, 160)])))
    if rng.random() < 0.2:
        text += rng.choice(['"', '\\', '"""', "'''", "\n", " "])
    return text


def run_shard(ctx):
    from vlib import sut  # pylint: disable=import-outside-toplevel

    rng = ctx.rng
    serial = ctx.shard * 1000000
    cells = []
    for s_idx, shape in enumerate(SHAPES):
        for d_idx, default in enumerate(DEFAULTS):
            cells.append((shape, "root", default))
        for p_idx, position in enumerate(POSITIONS):
            if ctx.params["full_matrix"]:
                for default in DEFAULTS:
                    cells.append((shape, position, default))
            else:
                cells.append((shape, position, DEFAULTS[(s_idx + p_idx + ctx.seed) % len(DEFAULTS)]))
                cells.append((shape, position, DEFAULTS[(s_idx * 3 + p_idx + 1 + ctx.seed) % 7]))
    cells = list(dict.fromkeys((s, p, canon(d)) for s, p, d in cells))
    lookup = {canon(d): d for d in DEFAULTS}
    for idx, (shape, position, dkey) in enumerate(cells):
        if idx % ctx.nshards != ctx.shard:
            continue
        serial += 1
        check_cell(ctx, sut, shape, position, lookup[dkey], serial, with_default=True)
        if idx % 5 == 0:
            serial += 1
            check_cell(ctx, sut, shape, position, None, serial, with_default=False)
    for _ in range(ctx.params["random"]):
        serial += 1
        shape, position = rng.choice(SHAPES), rng.choice(POSITIONS)
        default = rng.choice(DEFAULTS + [gv.random_value(rng, 2)])
        check_cell(ctx, sut, shape, position, default, serial, with_default=rng.random() < 0.85)
        if rng.random() < 0.2:
            serial += 1
            shared_definition(ctx, sut, serial, rng.choice(DEFAULTS), rng.choice(DEFAULTS))
    for idx, default in enumerate(DEFAULTS):
        for spelling in ("string", "list"):
            for plain_first in (True, False):
                if (idx * 4 + (spelling == "list") * 2 + plain_first) % ctx.nshards == ctx.shard:
                    serial += 1
                    twin_objects(ctx, sut, serial, default, spelling, plain_first)
                    serial += 1
                    twin_objects(ctx, sut, serial, default, spelling, plain_first,
                                 VACUOUS_NEIGHBOURS[(idx + plain_first) % len(VACUOUS_NEIGHBOURS)])
    if ctx.shard == 1 % ctx.nshards:
        serial += 1
        inline_route(ctx, sut, serial)
    if ctx.shard == 0:
        serial += 1
        annotation_key_literals(ctx, sut, serial)
        nested_defaults(ctx, sut, serial)
    pool = gen_docs.DESCRIPTIONS_PLAIN + gen_docs.DESCRIPTIONS_HOSTILE
    for idx, text in enumerate(pool):
        if idx % ctx.nshards == ctx.shard:
            serial += 1
            description_case(ctx, sut, text, serial, text in gen_docs.DESCRIPTIONS_HOSTILE)
    for _ in range(ctx.params["descriptions"]):
        serial += 1
        description_case(ctx, sut, random_description(rng), serial, True)
    ctx.sample({"cells_in_this_shard": [list(c[:2]) for c in cells[ctx.shard::ctx.nshards][:5]]})


def replay(case, ctx):
    from vlib import sut  # pylint: disable=import-outside-toplevel

    serial = 990000 + os.getpid() % 1000
    if "description" in case:
        description_case(ctx, sut, case["description"], serial, True)
    elif case.get("shape") == "shared_definition":
        props = case["schema"]["properties"]
        shared_definition(ctx, sut, serial, props["a"]["default"], props["b"]["default"])
    else:
        with_default = case.get("default") != "<none>"
        check_cell(ctx, sut, case["shape"], case["position"], case.get("default"), serial, with_default)
