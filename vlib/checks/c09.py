"""C09 - code generation and serialization are deterministic across processes."""
import hashlib
import json
import os
import subprocess
import sys

from vlib import bootstrap
from vlib import gen_docs
from vlib import gen_schemas as gs
from vlib import refmodel
from vlib.runner import canon

PROPERTY = "C09"
TECHNIQUE = (
    "runtime monitoring across processes: the same documents are generated (python module via main(), "
    "JSON via serialize_json(*parse(...)), class names) in several fresh interpreters with different "
    "PYTHONHASHSEED values; an offline checker demands one distinct output per document (byte equality); "
    "a sample goes through the real `python -m statham --input` command line"
)
RULE = (
    "document aimed at the naming mechanism: equally (auto-)titled but different object schemas under "
    "anyOf/oneOf/allOf/not of one parent, under several properties and in definitions, many element "
    "kinds (import sets), plus general multi-file documents; every document is generated under 6 (quick) "
    "/ 24 (thorough, incl. `random`) hash seeds; non-trivial = the output contains a numbered class "
    "(Name_1) or >= 3 imported element names; distinct by canonical JSON of the file set"
)
ASSUMPTIONS = [
    "determinism is judged on bytes of the outputs only; documents that fail to generate must fail with "
    "the same exception class in every process",
]
REQUIRED_COUNTERS = ["documents", "processes", "outputs.compared", "numbered_class_docs", "aimed_docs",
                     "cli.compared", "cli.output_file_compared", "json.before_vs_after_python", "json.compared", "seeds.distinct", "orders.reversed_and_solo", "processes.optimised", "documents.refused_first"]


def plan(tier):
    if tier == "quick":
        return {"shards": 8, "docs": 10, "seeds": ["0", "1", "2", "3", "4242", "random"], "cli": 1,
                "timeout": 900}
    return {"shards": 16, "docs": 200, "seeds": [str(n) for n in range(22)] + ["random", "random"], "cli": 6,
            "timeout": 7200}


def aimed_doc(rng, serial):
    """Equally titled, differently bodied objects spread over composition keywords / properties."""
    title = rng.choice(["Thing", "item", "A b"])
    def obj(k, titled=True):
        out = {"type": "object", "properties": {f"p{k}": gs.leaf(rng)}, "required": [f"p{k}"]}
        if titled:
            out["title"] = title
        return out
    keys = rng.sample(["anyOf", "oneOf", "allOf"], k=rng.randint(2, 3))
    root = {"type": "object", "title": f"Root {serial}", "properties": {}}
    inner = {}
    counter = 0
    for key in keys:
        branches = []
        for _ in range(rng.randint(1, 2)):
            counter += 1
            branches.append(obj(counter, titled=rng.random() < 0.7))
        inner[key] = branches
    if rng.random() < 0.5:
        counter += 1
        inner["not"] = obj(counter)
    root["properties"]["value"] = inner
    for name in rng.sample(["first", "second", "third"], k=rng.randint(1, 3)):
        counter += 1
        root["properties"][name] = obj(counter)
    # equally titled, differently bodied objects under DIFFERENT sub-schema keywords of one schema
    holder = {}
    for key in rng.sample(["properties", "patternProperties", "dependencies", "items", "contains",
                           "additionalProperties", "propertyNames", "additionalItems"], k=rng.randint(2, 5)):
        counter += 1
        if key == "properties":
            holder[key] = {"inner": obj(counter)}
        elif key == "patternProperties":
            holder[key] = {"^x": obj(counter)}
        elif key == "dependencies":
            holder[key] = {"dep": obj(counter)}
        elif key == "items":
            holder[key] = [obj(counter)] if rng.random() < 0.5 else obj(counter)
        else:
            holder[key] = obj(counter)
    root["properties"]["holder"] = holder
    if rng.random() < 0.7:
        # object literals with several keys inside default / const / enum (their key order is output)
        lit = {"zeta": 1, "alpha": [1, {"m": 1, "b": 2, "k": 3}], "mid": {"y": None, "x": True, "w": "s"}, "beta": "b"}
        root["properties"]["literals"] = {"default": lit, "enum": [lit, {"q": 1, "p": 2, "o": 3}],
                                          "properties": {"c": {"const": {"n2": 1, "n1": 2, "n3": 3}}}}
        root["default"] = {"z": 1, "y": 2, "x": 3, "w": 4}
    if rng.random() < 0.5:
        # defaults next to compositions whose members are all trivial (state written here must not leak
        # into documents handled later by the same process)
        root["properties"]["trivial"] = rng.choice([
            {"default": 3, "allOf": [{"title": "x"}]}, {"default": 0, "anyOf": [True]},
            {"default": "d", "oneOf": [{}]}, {"default": [1], "allOf": [{}, True]},
        ])
    kinds = rng.sample(["string", "integer", "number", "boolean", "null", "array"], k=rng.randint(1, 6))
    for idx, kind in enumerate(kinds):
        root["properties"][f"k{idx}"] = {"type": kind}
    if rng.random() < 0.5:
        root["definitions"] = {}
        for idx in range(rng.randint(1, 3)):
            counter += 1
            root["definitions"][f"def{idx}"] = obj(counter)
    # text outside ASCII (what is written must not depend on the locale of the process) ...
    root["description"] = rng.choice(["ünï cödé 日本", "naïve café", "plain"])
    if rng.random() < 0.4:
        # ... and a model whose name is also a name of the generated module's own vocabulary
        counter += 1
        root["properties"]["vocab"] = {"type": "object", "title": rng.choice(["String", "List", "Any", "Object"]),
                                       "properties": {"v": {"type": "string"}}}
    name = f"a{serial}_main.json"
    return {"files": {name: root}, "entry": name, "all_titled": False}


WORKER = r'''
import hashlib, json, sys, warnings
sys.path.insert(0, sys.argv[1])
warnings.simplefilter("ignore")
from json_ref_dict import RefDict, materialize
from statham.__main__ import main
from statham.schema.parser import parse
from statham.serializers import serialize_json, serialize_python
from statham.serializers.orderer import get_object_classes
from statham.titles import title_labeller
out = {}
def interpreter_settings():
    return [sys.getrecursionlimit(), sys.get_int_max_str_digits()]
settings_at_start = interpreter_settings()
for path in sys.argv[2:]:
    rec = {}
    try:
        text = main(path)
        rec["py"] = hashlib.sha256(text.encode("utf8", "surrogatepass")).hexdigest()
        rec["numbered"] = any(
            line.startswith("class ") and "_" in line.split("(")[0] and line.split("(")[0].rsplit("_", 1)[-1].isdigit()
            for line in text.splitlines())
        rec["imports"] = text.split("\n\n\n")[0].count(",") + 1 if text else 0
    except Exception as exc:
        rec["py"] = "raises:" + type(exc).__name__
    try:
        from statham.schema.parser import parse_element
        from statham.serializers import serialize_python
        bare = parse_element(materialize(RefDict.from_uri(path + "#/"), context_labeller=title_labeller()))
        rec["pe"] = hashlib.sha256((serialize_python(bare) + json.dumps(serialize_json(bare), default=repr)).encode("utf8", "surrogatepass")).hexdigest()
    except Exception as exc:
        rec["pe"] = "raises:" + type(exc).__name__
    try:
        # sub-schemas parsed one by one (each parse numbers its classes on its own, so equally titled
        # classes keep one name) and serialized together
        from statham.schema.elements import Array, Element
        whole = materialize(RefDict.from_uri(path + "#/"), context_labeller=title_labeller())
        parts = [parse_element(sub) for sub in (whole.get("properties") or {}).values() if isinstance(sub, dict)]
        joined = serialize_json(Array(parts) if parts else Element())
        rec["asm"] = hashlib.sha256(json.dumps(joined, default=repr).encode()).hexdigest()
        rec["asm_same_names"] = len({c.__name__ for c in get_object_classes(*parts)}) < len(get_object_classes(*parts))
    except Exception as exc:
        rec["asm"] = "raises:" + type(exc).__name__
    try:
        elements = parse(materialize(RefDict.from_uri(path + "#/"), context_labeller=title_labeller()))
        doc = serialize_json(*elements)
        rec["json"] = hashlib.sha256(json.dumps(doc, default=repr).encode()).hexdigest()
        rec["names"] = [c.__name__ for c in get_object_classes(*elements)]
        # the same elements again AFTER the Python module has been produced from them: what one serializer
        # does must not show in what the other says (or in the names) afterwards
        try:
            serialize_python(*elements)
        except Exception:
            pass
        again = serialize_json(*elements)
        rec["json_after_python"] = hashlib.sha256(json.dumps(again, default=repr).encode()).hexdigest()
        rec["names_after_python"] = [c.__name__ for c in get_object_classes(*elements)]
    except Exception as exc:
        rec["json"] = "raises:" + type(exc).__name__
    rec["interpreter_settings_changed"] = interpreter_settings() != settings_at_start and \
        [settings_at_start, interpreter_settings()]
    out[path] = rec
print(json.dumps(out))
'''


def run_seed(directory, paths, seed, flags=()):
    env = dict(os.environ, PYTHONHASHSEED=seed, PYTHONDONTWRITEBYTECODE="1")
    proc = subprocess.run(
        [bootstrap.PYTHON, *flags, "-c", WORKER, bootstrap.REPO] + paths,
        capture_output=True, text=True, timeout=600, env=env, cwd=directory,
    )
    if proc.returncode != 0:
        raise bootstrap.Inconclusive(f"seed process {seed} failed: {proc.stderr[-400:]}")
    return json.loads(proc.stdout.strip().splitlines()[-1])


PROJECT_FILES = {
    "pyproject.toml": "[tool.black]\nline-length = {width}\n\n[tool.statham]\nline-length = {width}\nindent = 2\n\n"
                      "[tool.isort]\nline_length = {width}\n\n[tool.pylint.format]\nmax-line-length = {width}\n",
    "setup.cfg": "[flake8]\nmax-line-length = {width}\n\n[statham]\nline_length = {width}\n",
    "tox.ini": "[flake8]\nmax-line-length = {width}\n",
    ".editorconfig": "root = true\n[*.py]\nmax_line_length = {width}\nindent_size = 2\n",
}


def project_directory(directory, width):
    """A working directory that looks like somebody's project: configuration files of formatters and linters
    with their own opinions about line length.  What the generator writes depends on the input document."""
    where = os.path.join(directory, f"project_{width}")
    os.makedirs(where, exist_ok=True)
    for name, text in PROJECT_FILES.items():
        with open(os.path.join(where, name), "w", encoding="utf8") as handle:
            handle.write(text.format(width=width))
    return where


def run_cli(directory, path, seed, cwd=None, extra_env=None):
    env = dict(os.environ, PYTHONHASHSEED=seed, PYTHONPATH=bootstrap.REPO, PYTHONDONTWRITEBYTECODE="1",
               **(extra_env or {}))
    proc = subprocess.run(
        [bootstrap.PYTHON, "-W", "ignore", "-m", "statham", "--input", os.path.abspath(path)],
        capture_output=True, timeout=300, env=env, cwd=cwd or directory,
    )
    return proc.returncode, hashlib.sha256(proc.stdout).hexdigest()


C_LOCALE = {"LC_ALL": "C", "LANG": "C", "PYTHONUTF8": "0", "PYTHONCOERCECLOCALE": "0"}


def run_cli_output(directory, path, seed, extra_env, tag):
    """`python -m statham --input <doc> --output <file>`: the bytes written must not depend on the
    process either (hash seed, and the locale the process inherits)."""
    out_path = os.path.join(directory, f"out_{tag}_{os.path.basename(path)}.py")
    if tag == 2:
        # regeneration: the file is already there, from an earlier and much longer module
        with open(out_path, "w", encoding="utf8") as handle:
            handle.write("# left over from an earlier generation\n" * 2000)
    env = dict(os.environ, PYTHONHASHSEED=seed, PYTHONPATH=bootstrap.REPO, PYTHONDONTWRITEBYTECODE="1", **extra_env)
    proc = subprocess.run(
        [bootstrap.PYTHON, "-W", "ignore", "-m", "statham", "--input", path, "--output", out_path],
        capture_output=True, timeout=300, env=env, cwd=directory,
    )
    try:
        with open(out_path, "rb") as handle:
            digest = hashlib.sha256(handle.read()).hexdigest()
        os.remove(out_path)
    except OSError:
        digest = "no-file"
    return proc.returncode, digest


def run_shard(ctx):
    rng = ctx.rng
    directory = ctx.tmpdir()
    docs = []
    for idx in range(ctx.params["docs"]):
        serial = f"{ctx.shard}_{idx}_{os.getpid()}"
        if idx % 2 == 0:
            doc = aimed_doc(rng, serial)
            ctx.count("aimed_docs")
        else:
            doc = gen_docs.DocGen(rng, serial, untitled=0.6).doc()
        try:
            resolved = gen_docs.resolve(doc)
            if not refmodel.metaschema_valid(resolved):
                continue
        except Exception:  # pylint: disable=broad-except
            continue
        gen_docs.write_files(doc, directory)
        docs.append(doc)
    if ctx.shard % 4 == 0:
        # a document the library refuses, first in the batch: what a process does with the documents after it
        # must not depend on having met it (a refusal that leaves process state behind).  Documents nested
        # close to the interpreter's recursion limit, where such state would matter most, cost about half a
        # minute per process and are left to C10 / C20's in-process depth sweeps.
        refused = {"files": {f"r{ctx.shard}_{os.getpid()}_main.json": {
            "type": "object", "title": "Refused", "properties": {"x": {"if": {"type": "string"}}}}}}
        refused["entry"] = next(iter(refused["files"]))
        gen_docs.write_files(refused, directory)
        docs.insert(0, refused)
        ctx.count("documents.refused_first")
    paths = [os.path.join(directory, doc["entry"]) for doc in docs]
    results = {}
    seeds = ctx.params["seeds"]
    for pos, seed in enumerate(seeds):
        # process instances also differ in what they handled before: odd processes take the documents in
        # reverse order (the output for a document must not depend on the process's history)
        ordered = paths if pos % 2 == 0 else list(reversed(paths))
        results[f"{seed}#{pos}{'r' if pos % 2 else ''}"] = run_seed(directory, ordered, seed)
        ctx.count("processes")
    if paths:
        # and one fresh process per document for the first few
        for path in paths[:2]:
            solo = run_seed(directory, [path], seeds[0])
            for label in list(results):
                pass
            results.setdefault("solo", {}).update(solo)
            ctx.count("processes")
        ctx.count("orders.reversed_and_solo")
        # ... and processes started with the interpreter's optimisation switches (asserts stripped, then
        # docstrings too): generation from a document must not hinge on either
        for flag in ("-O", "-OO"):
            results[f"{seeds[0]}{flag}"] = run_seed(directory, paths, seeds[0], flags=(flag,))
            ctx.count("processes")
        ctx.count("processes.optimised")
    ctx.count("seeds.distinct", len(set(seeds)))
    for doc, path in zip(docs, paths):
        ctx.count("documents")
        ctx.evaluation()
        recs = {label: res[path] for label, res in results.items() if path in res}
        case = {"files": doc["files"], "entry": doc["entry"]}
        first = next(iter(recs.values()))
        if first.get("numbered") or first.get("imports", 0) >= 3:
            ctx.nontrivial(canon(doc["files"]))
        if first.get("numbered"):
            ctx.count("numbered_class_docs")
        for label, rec in recs.items():
            ctx.count("json.before_vs_after_python")
            if "json_after_python" in rec and (rec["json_after_python"] != rec.get("json")
                                               or rec["names_after_python"] != rec.get("names")):
                ctx.witness("output_depends_on_process", {**case, "field": "json_after_python"},
                            f"process {label}: the JSON serialization / class names of the same elements differ "
                            f"before and after serialize_python: {rec.get('names')} vs {rec['names_after_python']}"[:400])
                break
        if first.get("asm_same_names"):
            ctx.count("assembled.same_named_classes")
        ctx.count("interpreter_settings.compared")
        changed = [(label, rec["interpreter_settings_changed"]) for label, rec in recs.items()
                   if rec.get("interpreter_settings_changed")]
        if changed:
            # what a later document of the same process produces depends on these settings (how deep a document
            # may nest before it is refused, how large an integer may be written): leaving them changed makes
            # the output a function of the process's history, not of the input document
            ctx.witness("output_depends_on_process", {**case, "field": "interpreter_settings"},
                        f"after this document the interpreter-wide settings [recursion limit, int_max_str_digits] "
                        f"are left changed in process {changed[0][0]}: {changed[0][1]}")
        for field in ("py", "json", "names", "pe", "asm"):
            outputs = {}
            for label, rec in recs.items():
                outputs.setdefault(json.dumps(rec.get(field)), []).append(label)
            ctx.count("outputs.compared")
            if field == "json":
                ctx.count("json.compared")
            if len(outputs) > 1:
                ctx.witness(
                    "output_depends_on_process", {**case, "field": field},
                    f"{len(outputs)} distinct {field} outputs over {len(recs)} processes: "
                    + "; ".join(f"{k[:40]} <- seeds {v}" for k, v in list(outputs.items())[:3]),
                )
                break
    for doc, path in list(zip(docs, paths))[: ctx.params["cli"]]:
        outs = {}
        for number, seed in enumerate(seeds[:4]):
            if number < 2:
                code, digest = run_cli(directory, path, seed)
            else:
                # the same document from inside a "project" (another working directory, other terminal width)
                width = (40, 120)[number % 2]
                code, digest = run_cli(directory, path, seed, cwd=project_directory(directory, width),
                                       extra_env={"COLUMNS": str(width), "LINES": "10"})
                ctx.count("cli.other_working_directory")
            outs.setdefault((code, digest), []).append(seed)
        ctx.count("cli.compared")
        files = {}
        # (other hash seeds, the C locale, and time zones half a day apart - the local DATE differs between them)
        for tag, (seed, extra) in enumerate([(seeds[0], {"TZ": "UTC"}), (seeds[1 % len(seeds)], {**C_LOCALE, "TZ": "WEST12"}),
                                             ("random", {**C_LOCALE, "TZ": "EAST-14"})]):
            files.setdefault(run_cli_output(directory, path, seed, extra, tag), []).append(
                f"{seed}+{'C-locale+' if 'LC_ALL' in extra else ''}TZ={extra['TZ']}")
        ctx.count("cli.output_file_compared")
        if len(files) > 1:
            ctx.witness("cli_output_depends_on_process", {"files": doc["files"], "entry": doc["entry"], "route": "--output"},
                        f"`--output` wrote {len(files)} distinct files: {list(files.items())}"[:400])
        if len(outs) > 1:
            ctx.witness("cli_output_depends_on_process", {"files": doc["files"], "entry": doc["entry"]},
                        f"`python -m statham --input` printed {len(outs)} distinct outputs: {list(outs.values())}")
    for doc in docs:
        gen_docs.remove_files(doc, directory)
    if docs:
        ctx.sample({"files": docs[0]["files"], "seeds": seeds})


def replay(case, ctx):
    directory = ctx.tmpdir()
    suffix = f"r{os.getpid()}"
    text = json.dumps(case["files"])
    rename = {name: name.replace(".json", f"_{suffix}.json") for name in case["files"]}
    for old, new in rename.items():
        text = text.replace(old, new)
    doc = {"files": json.loads(text), "entry": rename[case["entry"]]}
    path = gen_docs.write_files(doc, directory)
    outs = {}
    for seed in ["0", "1", "2", "3", "4", "5", "6", "7", "random"]:
        rec = run_seed(directory, [path], seed)[path]
        outs.setdefault(json.dumps(rec, sort_keys=True), []).append(seed)
    ctx.evaluation()
    if len(outs) > 1:
        ctx.witness("output_depends_on_process", case, f"{len(outs)} distinct outputs: {list(outs.values())}")
    _ = sys
