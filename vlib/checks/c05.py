"""C05 - defaults fill omitted values and never override supplied ones."""
import copy
import itertools

from vlib import gen_dsl
from vlib import gen_values as gv
from vlib import refmodel
from vlib.runner import canon

PROPERTY = "C05"
TECHNIQUE = (
    "runtime monitoring: a small executable model of the statement (per property: supplied -> the "
    "property's own element applied to the supplied value; omitted with default -> the element applied "
    "to the default if it accepts it, else the raw default; omitted without default -> not-passed) is "
    "compared with every member of every model built, over ALL subsets of supplied properties; "
    "'converted exactly as if supplied' is observed by calling the property's element in isolation"
)
RULE = (
    "object = model class (DSL), parsed class (JSON schema through the parser) or untyped "
    "Element(properties=...) with 1..5 properties x {plain, renamed} x {no default, valid default, invalid "
    "default, nested-object default, default on a composition} x {required, optional}, optionally with "
    "pattern / additional properties carrying their own defaults; all 2^n supplied subsets; plus every "
    "element kind called with no value; non-trivial = every (object, subset) with n >= 2; distinct by "
    "(spec, subset)"
)
ASSUMPTIONS = [
    "supplied values are generated valid for their property, so a rejection of the whole object is judged "
    "against the Draft-6 model of the object (required-with-default waiver on): rejected although valid = "
    "an error caused by default handling",
    "result members are compared by library-independent fingerprints",
]
CELLS = [f"{r}.{d}.{s}" for r in ("plain", "renamed")
         for d in ("nodefault", "valid", "invalid", "nested", "composition")
         for s in ("supplied", "omitted")]
REQUIRED_COUNTERS = ["objects", "subsets", "members.checked", "owner.class", "owner.parsed", "parsed.single_type_list", "owner.untyped", "owner.subclass",
                     "novalue.calls", "novalue.default_valid", "novalue.default_invalid", "novalue.notpassed",
                     "class_novalue.calls", "pattern_overlap", "defaults.scribbled", "crossing_names"] + [f"cell.{c}" for c in CELLS]

ANCHORS = [
    "statham.schema.elements.base:Element.__call__",
    "statham.schema.elements.object:Object.__new__",
    "statham.schema.elements.object:Object.__init__",
    "statham.schema.elements.properties:Properties.__call__",
    "statham.schema.property:_PropertyDict.required",
]


def plan(tier):
    if tier == "quick":
        return {"shards": 16, "objects": 130, "timeout": 900}
    return {"shards": 16, "objects": 9000, "timeout": 7200}


def leaf_spec(rng):
    roll = rng.random()
    if roll < 0.25:
        return {"t": "String", "kw": rng.choice([{}, {"minLength": 1}, {"maxLength": 3}, {"pattern": "^a"}])}
    if roll < 0.45:
        return {"t": "Integer", "kw": rng.choice([{}, {"minimum": 0}, {"maximum": 5, "multipleOf": 1}])}
    if roll < 0.6:
        return {"t": "Number", "kw": rng.choice([{}, {"minimum": 0.5}])}
    if roll < 0.7:
        return {"t": "Boolean", "kw": {}}
    if roll < 0.8:
        return {"t": "Array", "items": rng.choice([{"t": "Number", "kw": {}}, {"t": "String", "kw": {}},
                                                   {"t": "Element", "kw": {}}]),
                "kw": rng.choice([{}, {"minItems": 1}])}
    if roll < 0.9:
        return {"t": "Element", "kw": rng.choice([{}, {"minimum": 1}, {"enum": [1, "a", None]}])}
    return {"t": "Null", "kw": {}}


def make_property(rng, counter):
    """-> (pspec, default kind)"""
    kind = rng.choice(["nodefault", "valid", "invalid", "nested", "composition"])
    required = rng.random() < 0.4
    if kind == "nested":
        counter[0] += 1
        inner = {"t": "Object", "name": f"N{counter[0]}", "kw": {"default": {}}, "base": None, "id": 700 + counter[0],
                 "props": {"deep": {"el": {"t": "Integer", "kw": {"default": 7}}, "required": False, "source": None},
                           "other": {"el": {"t": "String", "kw": {}}, "required": False, "source": None}}}
        roll = rng.random()
        if roll < 0.35:
            inner["kw"]["default"] = {"other": "given"}
        elif roll < 0.6:
            # passes the object-level keywords but holds a member that is invalid for its property:
            # still "returned as-is, never an error"
            inner["kw"]["default"] = rng.choice([{"deep": "not-an-int"}, {"other": 5}, {"deep": 1, "other": [1]}])
        return {"el": inner, "required": required, "source": None}, kind
    if kind == "composition":
        comp = rng.choice(["AnyOf", "OneOf", "AllOf"])
        if comp == "AllOf":
            elements = [{"t": "Integer", "kw": {}}, {"t": "Element", "kw": {"minimum": 0}}]
            default = rng.choice([3, 0, -1, "x"])
        else:
            elements = [{"t": "String", "kw": {"minLength": 2}}, {"t": "Integer", "kw": {"minimum": 10}}]
            default = rng.choice(["ab", 10, "a", 3, None])
        return {"el": {"t": comp, "elements": elements, "kw": {"default": default}},
                "required": required, "source": None}, kind
    el = leaf_spec(rng)
    el = {**el, "kw": dict(el["kw"])}
    if kind in ("valid", "invalid"):
        schema = gen_dsl.to_schema(el)
        if kind == "valid":
            default = gv.satisfy(rng, schema, schema)
            if not refmodel.valid(schema, default, schema, refmodel.Dev(waiver=True)):
                kind = "invalid"
        else:
            default = None
            for _ in range(10):
                cand = rng.choice([None, "zzzzzz", -7, 2.5, [], {}, True, "", [1, "a"]])
                if not refmodel.valid(schema, cand, schema, refmodel.Dev(waiver=True)):
                    default = cand
                    break
            else:
                kind, default = "valid", gv.satisfy(rng, schema, schema)
        el["kw"]["default"] = default
    return {"el": el, "required": required, "source": None}, kind


def make_object(rng, counter):
    count = rng.randint(1, 5)
    pool = list(gen_dsl.PY_NAMES[:6]) + list(gen_dsl.RENAMES)
    names = rng.sample(pool, k=count)
    if not any(n in gen_dsl.RENAMES for n in names) and rng.random() < 0.6:
        names[0] = rng.choice(list(gen_dsl.RENAMES))
    props, kinds = {}, {}
    for name in names:
        pspec, kind = make_property(rng, counter)
        if name in gen_dsl.RENAMES:
            pspec["source"] = gen_dsl.RENAMES[name]
        props[name] = pspec
        kinds[name] = kind
    if rng.random() < 0.25:
        # crossing names: the attribute name of one property is the JSON name of another one
        # (type = Property(..., source="kind") next to type_ = Property(..., source="type"))
        for attr, source in (("kind_x", "kind"), ("kind", "sort"), ("sort", "kind_x")):
            pspec, kind = make_property(rng, counter)
            pspec["source"] = source
            props[attr] = pspec
            kinds[attr] = kind
        names = list(props)
    kw = {}
    overlap = False
    if rng.random() < 0.35:
        # patterns / additional with their own defaults; some patterns match a declared JSON or Python name
        target = rng.choice(names)
        json_name = props[target]["source"] if props[target]["source"] is not None else target
        pattern = rng.choice(["^" + json_name[0], "^" + target[0], "^zz", "."]) if json_name else "^zz"
        try:
            import re  # pylint: disable=import-outside-toplevel

            re.compile(pattern)
        except Exception:  # pylint: disable=broad-except
            pattern = "^zz"
        kw["patternProperties"] = {pattern: {"t": "Element", "kw": {"default": "from-pattern"}}}
        overlap = True
    if rng.random() < 0.3:
        kw["additionalProperties"] = {"t": "Element", "kw": {"default": "from-additional"}}
    counter[0] += 1
    owner = rng.choice(["class", "parsed", "untyped", "subclass"])
    if owner == "untyped":
        spec = {"t": "Element", "kw": {**kw, "properties": props}}
    elif owner == "subclass":
        # the properties are split over a base class and a subclass; one of them may be re-declared by
        # the subclass with another default; the BASE is used before the subclass
        split = rng.randint(0, len(names))
        base_props = {name: props[name] for name in names[:split]}
        child_props = {name: props[name] for name in names[split:]}
        if base_props and rng.random() < 0.5:
            redeclared = rng.choice(sorted(base_props))
            child_props[redeclared] = base_props[redeclared]
            other, _kind = make_property(rng, counter)
            other["source"] = base_props[redeclared]["source"]
            base_props[redeclared] = other
        base = {"t": "Object", "name": f"Base{counter[0]}", "kw": {}, "props": base_props, "base": None,
                "id": 800 + counter[0]}
        spec = {"t": "Object", "name": f"Own{counter[0]}", "kw": kw, "props": child_props, "base": base,
                "id": 600 + counter[0]}
    else:
        spec = {"t": "Object", "name": f"Own{counter[0]}", "kw": kw, "props": props, "base": None,
                "id": 600 + counter[0]}
    if spec["t"] == "Object" and "default" in spec["kw"] and rng.random() < 0.5:
        spec["default_in_body"] = True      # `default = {...}` as a class variable (the other documented form)
    return spec, owner, props, kinds, overlap


def expected_member(sut, fpm, pspec, supplied, value):
    iso = gen_dsl.build(pspec["el"])
    if supplied:
        outcome, result, _ = sut.call(iso, copy.deepcopy(value))
        return ("value", outcome, fpm.fp_result(result) if outcome == "ok" else None)
    default = getattr(iso, "default", sut.NotPassed())
    if isinstance(default, sut.NotPassed):
        return ("notpassed", "ok", fpm.fp_result(sut.NotPassed()))
    outcome, result, _ = sut.call(iso, copy.deepcopy(default))
    if outcome == "ok":
        return ("default_converted", "ok", fpm.fp_result(result))
    return ("default_raw", "ok", fpm.fp_result(default))


def scribble(sut, value, ctx):
    try:
        if isinstance(value, list):
            value.append("caller-scribble")
            ctx.count("defaults.scribbled")
        elif isinstance(value, sut.Object):
            value._dict["caller-scribble"] = 1  # pylint: disable=protected-access
            for name in list(type(value).properties or {})[:1]:
                setattr(value, name, "caller-scribble")
            ctx.count("defaults.scribbled")
        elif isinstance(value, dict):
            value["caller-scribble"] = 1
            ctx.count("defaults.scribbled")
    except Exception:  # pylint: disable=broad-except
        pass


def check_object(ctx, sut, fpm, rng, spec, owner, props, kinds, overlap):
    index = gen_dsl.index_specs(spec)
    schema = gen_dsl.to_schema(spec, index)
    try:
        if owner == "parsed":
            if rng.random() < 0.4:
                # the same schema with `type` spelled as a one-element list here and there (same meaning;
                # the parser takes another route for it)
                parsed_schema = copy.deepcopy(schema)
                for sub_schema in (parsed_schema.get("properties") or {}).values():
                    if isinstance(sub_schema, dict) and isinstance(sub_schema.get("type"), str) and rng.random() < 0.6:
                        sub_schema["type"] = [sub_schema["type"]]
                        ctx.count("parsed.single_type_list")
                element = sut.parse_direct(parsed_schema)
            else:
                element = sut.parse_direct(schema)
            # the parser names attributes itself: map JSON name -> attribute
            attr_of = {p.source: name for name, p in element.properties.items()}
        else:
            element = gen_dsl.build(spec)
            attr_of = {(p["source"] if p["source"] is not None else name): name for name, p in props.items()}
            if owner == "subclass":
                base_cls = element.__mro__[1]
                for warm in ({}, {"zz": 1}):
                    sut.call(base_cls, warm)
                    try:
                        base_cls()
                    except Exception:  # pylint: disable=broad-except
                        pass
    except Exception as exc:  # pylint: disable=broad-except
        ctx.count("build_failed." + type(exc).__name__)
        return
    ctx.count("objects")
    ctx.count("owner." + owner)
    if "kind_x" in props:
        ctx.count("crossing_names")
    if overlap:
        ctx.count("pattern_overlap")
    supplied_values = {}
    for name, pspec in props.items():
        sub_schema = gen_dsl.to_schema(pspec["el"], index)
        supplied_values[name] = gv.satisfy(rng, sub_schema, sub_schema) if isinstance(sub_schema, dict) else 1
    names = list(props)
    subsets = list(itertools.chain.from_iterable(
        itertools.combinations(names, k) for k in range(len(names) + 1)))
    if len(subsets) > 64:
        subsets = [subsets[0], subsets[-1]] + rng.sample(subsets[1:-1], k=62)
    for subset in subsets:
        value = {}
        for name in subset:
            value[props[name]["source"] if props[name]["source"] is not None else name] = copy.deepcopy(supplied_values[name])
        ctx.count("subsets")
        ctx.evaluation()
        case = {"spec": spec, "owner": owner, "supplied": list(subset), "value": value}
        if len(names) >= 2:
            ctx.nontrivial(canon([spec, owner, sorted(subset)]))
        outcome, result, exc = sut.call(element, copy.deepcopy(value))
        if outcome != "ok":
            try:
                # C05 reads the waiver strictly: an omitted property with a default is filled in, never
                # an error - so the object is judged with the waiver ON
                allowed = {refmodel.valid(schema, value, schema,
                                          refmodel.Dev(waiver=True, curated=gv.CURATED, mult_disputed=flag))
                           for flag in (True, False)}
            except Exception:  # pylint: disable=broad-except
                allowed = {True, False}
            if allowed == {True} and outcome in ("ValidationError", "TypeError"):
                ctx.witness("valid_object_rejected", case,
                            f"{outcome}: {exc!r} although the object is valid for its schema"[:400])
            elif outcome not in ("ValidationError", "TypeError"):
                ctx.witness("error_escaped", case, f"{outcome}: {exc!r}"[:300])
            continue
        store = result._dict if isinstance(result, sut.Object) else result  # pylint: disable=protected-access
        for name, pspec in props.items():
            supplied = name in subset
            json_name = pspec["source"] if pspec["source"] is not None else name
            attr = attr_of.get(json_name, name)
            cell = f"{'renamed' if attr != json_name else 'plain'}.{kinds[name]}." \
                   f"{'supplied' if supplied else 'omitted'}"
            ctx.count("cell." + cell)
            ctx.count("members.checked")
            want = expected_member(sut, fpm, pspec, supplied, supplied_values[name])
            if want[1] != "ok":
                continue  # the supplied value is not accepted by the element in isolation either
            if attr not in store:
                ctx.witness("member_missing", {**case, "property": name},
                            f"declared property {attr!r} is absent from the result (cell {cell})")
                break
            got = fpm.fp_result(store[attr])
            if isinstance(result, sut.Object):
                try:
                    if fpm.fp_result(getattr(result, attr)) != got:
                        ctx.witness("attribute_differs_from_item", {**case, "property": name}, cell)
                        break
                except AttributeError:
                    ctx.witness("member_missing", {**case, "property": name},
                                f"attribute {attr!r} missing (cell {cell})")
                    break
            if got != want[2]:
                ctx.witness(
                    "default_rule_broken", {**case, "property": name},
                    f"cell {cell}: expected {want[0]} {str(want[2])[:200]}, got {str(got)[:200]}")
                break
            # the caller may do anything with what it was given: scribble on container values so that a
            # converted default shared between builds would show up in the next subset
            if not supplied and want[0] == "default_converted":
                scribble(sut, store[attr], ctx)
    ctx.sample({"spec": spec, "owner": owner}, every=60)


def no_value_calls(ctx, sut, fpm, rng):
    """Every element kind and model class called with no value."""
    counter = [9000]
    for _ in range(12):
        pspec, kind = make_property(rng, counter)
        el_spec = pspec["el"]
        try:
            element = gen_dsl.build(el_spec)
        except Exception:  # pylint: disable=broad-except
            continue
        want = expected_member(sut, fpm, pspec, False, None)
        ctx.evaluation()
        if isinstance(element, type):
            calls = [("class()", lambda: element()), ("class(NotPassed)", lambda: element(sut.NotPassed()))]
            ctx.count("class_novalue.calls")
        else:
            calls = [("el(NotPassed)", lambda: element(sut.NotPassed()))]
        for label, thunk in calls:
            ctx.count("novalue.calls")
            try:
                got = thunk()
            except Exception as exc:  # pylint: disable=broad-except
                ctx.witness("novalue_raised", {"spec": el_spec, "call": label},
                            f"{type(exc).__name__}: {exc!r}"[:300])
                continue
            ctx.count({"default_converted": "novalue.default_valid", "default_raw": "novalue.default_invalid",
                       "notpassed": "novalue.notpassed"}[want[0]])
            got_fp = fpm.fp_result(got)
            if got_fp == want[2] and want[0] == "default_converted":
                scribble(sut, got, ctx)
                try:
                    again = thunk()
                    if fpm.fp_result(again) != want[2]:
                        ctx.witness("novalue_rule_broken", {"spec": el_spec, "call": label + " (second call)",
                                                            "kind": kind},
                                    "after the caller modified the first result, a second call with no value "
                                    f"returned {str(fpm.fp_result(again))[:200]}")
                except Exception:  # pylint: disable=broad-except
                    pass
            if got_fp != want[2]:
                ctx.witness("novalue_rule_broken", {"spec": el_spec, "call": label, "kind": kind},
                            f"{label}: expected {want[0]} {str(want[2])[:200]}, got {str(got_fp)[:200]}")


def keyword_named_properties(ctx, sut):
    """Properties whose names equal class keywords / internals of the model (default, properties, required,
    ...) on models that also have a model-level default, called with no value and with {}."""
    for name in ("default", "properties", "required", "description", "const", "enum", "additionalProperties",
                 "validators", "annotation", "python", "_dict", "inline"):
        for member_default in ({name: "x"}, {}):
            schema = {"type": "object", "title": "KeywordNamed", "default": member_default,
                      "properties": {name: {"type": "string", "default": "inner"}, "other": {"type": "integer", "default": 3}}}
            ctx.evaluation()
            ctx.count("novalue.calls")
            ctx.count("novalue.keyword_named_property")
            try:
                cls = sut.parse_direct(schema)
                attr = next(key for key, prop in cls.properties.items() if prop.source == name)
                for label, thunk in (("class()", lambda: cls()), ("class(NotPassed)", lambda: cls(sut.NotPassed())),
                                     ("class({})", lambda: cls({}))):
                    got = thunk()
                    want = member_default.get(name, "inner") if label != "class({})" else "inner"
                    if getattr(got, attr) != want or got["other"] != 3:
                        ctx.witness("novalue_rule_broken", {"schema": schema, "call": label},
                                    f"{label}: {attr}={getattr(got, attr)!r} (expected {want!r}), other={got['other']!r}")
            except Exception as exc:  # pylint: disable=broad-except
                ctx.witness("novalue_raised", {"schema": schema, "call": "class()"},
                            f"{type(exc).__name__}: {exc!r}: a model with a property named {name!r}"[:300])


def ill_typed_keyword_defaults(ctx, sut):
    """Defaults whose validation raises TypeError rather than ValidationError (the DSL does not type
    check keyword values): still 'returned as-is, never an error'."""
    cases = [
        ("Element(minimum='a', default=3)", lambda: sut.Element(minimum="a", default=3), 3),
        ("Element(maximum=None, default=3)", lambda: sut.Element(maximum=None, default=3), 3),
        ("String(pattern=5, default='x')", lambda: sut.String(pattern=5, default="x"), "x"),
        ("Element(multipleOf='2', default=4)", lambda: sut.Element(multipleOf="2", default=4), 4),
        ("Element(minLength='1', default='x')", lambda: sut.Element(minLength="1", default="x"), "x"),
        ("Array(String(), minItems='1', default=['a'])", lambda: sut.Array(sut.String(), minItems="1", default=["a"]), ["a"]),
    ]
    for label, make, default in cases:
        ctx.evaluation()
        ctx.count("novalue.calls")
        ctx.count("novalue.default_raises_typeerror")
        try:
            element = make()
            got = element(sut.NotPassed())
        except Exception as exc:  # pylint: disable=broad-except
            ctx.witness("novalue_raised", {"dsl": label, "call": "el(NotPassed)"},
                        f"{type(exc).__name__}: {exc!r}: an invalid default must come back as-is"[:300])
            continue
        if got != default:
            ctx.witness("novalue_rule_broken", {"dsl": label}, f"expected the raw default {default!r}, got {got!r}")
        # and as an omitted property
        try:
            owner = sut.Element(properties={"p": sut.Property(make())})
            built = owner({})
            if built["p"] != default:
                ctx.witness("default_rule_broken", {"dsl": label}, f"omitted property holds {built['p']!r}")
        except Exception as exc:  # pylint: disable=broad-except
            ctx.witness("error_escaped", {"dsl": label, "call": "owner({})"}, f"{type(exc).__name__}: {exc!r}"[:300])


def run_shard(ctx):
    from vlib import fingerprint as fpm  # pylint: disable=import-outside-toplevel
    from vlib import sut  # pylint: disable=import-outside-toplevel

    rng = ctx.rng
    counter = [0]
    if ctx.shard == 0:
        ill_typed_keyword_defaults(ctx, sut)
        keyword_named_properties(ctx, sut)
    for idx in range(ctx.params["objects"]):
        spec, owner, props, kinds, overlap = make_object(rng, counter)
        check_object(ctx, sut, fpm, rng, spec, owner, props, kinds, overlap)
        if idx % 10 == 0:
            no_value_calls(ctx, sut, fpm, rng)


def replay(case, ctx):
    from vlib import fingerprint as fpm  # pylint: disable=import-outside-toplevel
    from vlib import sut  # pylint: disable=import-outside-toplevel

    spec = case["spec"]
    if "owner" not in case:
        element = gen_dsl.build(spec)
        ctx.evaluation()
        want = expected_member(sut, fpm, {"el": spec}, False, None)
        got = element() if isinstance(element, type) else element(sut.NotPassed())
        if fpm.fp_result(got) != want[2]:
            ctx.witness("novalue_rule_broken", case, "replayed")
        return
    props = spec["props"] if spec["t"] == "Object" else spec["kw"]["properties"]
    kinds = {name: "replay" for name in props}
    global CELLS  # pylint: disable=global-statement
    check_object(ctx, sut, fpm, ctx.rng, spec, case["owner"], props,
                 {name: "nodefault" for name in props}, False)
    _ = kinds
