"""C04 - an accepted value comes back complete and unaltered inside the model."""
import copy
import re

from vlib import gen_schemas as gs
from vlib import gen_values as gv
from vlib import refmodel
from vlib.runner import canon

PROPERTY = "C04"
TECHNIQUE = (
    "runtime monitoring: containment oracle on every accepted call - the returned model is walked in "
    "parallel with the input (and with the raw schema where the applicable sub-schema is unambiguous): "
    "every input member must be readable the way the statement words it (attribute + item access under "
    "the Python name for declared properties, item access under the JSON name otherwise), unchanged "
    "except int -> equal float under `number`; arrays keep length and order; extra members must be "
    "declared properties holding default / not-passed; composition results must be the first accepting "
    "branch's own construction (observed by calling the real branch elements)"
)
RULE = (
    "case = (schema from the grammar / interaction templates / construction templates, accepted value); "
    "values biased to declared-and-pattern-matched keys, additional keys, tuple + additional items, "
    "nested compositions, renamed properties, keys that look like Python names of other properties, "
    "ints under number incl. beyond 2^53; non-trivial = accepted container value with >= 2 members or "
    "nesting >= 1; distinct by canonical (schema, value)"
)
ASSUMPTIONS = [
    "the sub-schema governing a member is taken from the raw schema only where Draft 6 makes it "
    "unambiguous (no composition / type list on the path, declared xor pattern xor additional); typed "
    "expectations (integer stays int, number becomes the equal float when one exists) are judged only there",
    "F05: an input key equal to the Python name of a renamed property collides with that property in the "
    "result; attributed only by that structural trigger",
]
REQUIRED_COUNTERS = [
    "accepted", "members.compared", "pos.declared", "pos.declared_renamed", "pos.pattern", "pos.additional",
    "pos.tuple_item", "pos.additional_item", "pos.list_item", "int_to_float", "int_kept_under_integer",
    "branch.first_accepting_checked", "branch.index0", "branch.index_gt0", "model_instances", "anon_objects",
    "shared_owners.ok", "extras.default_or_notpassed", "access.attribute", "access.item", "families", "family.accepted_level1", "dsl_templates.empty_tuple", "repeat_after_caller_edit",
]

ANCHORS = [
    "statham.schema.elements.base:Element.construct",
    "statham.schema.elements.properties:Properties.__call__",
    "statham.schema.elements.items:Items.__call__",
    "statham.schema.elements.object:Object.__init__",
    "statham.schema.elements.composition:_attempt_schemas",
    "statham.schema.elements.numeric:Number.construct",
]


def plan(tier):
    if tier == "quick":
        return {"shards": 16, "schemas": 260, "values": 10, "timeout": 900}
    return {"shards": 16, "schemas": 20000, "values": 10, "timeout": 7200}


def tmpl_construction(rng):
    """Schemas aimed at construction: renames, pattern overlap, tuple+additional, number vs integer."""
    names = rng.sample(gs.PLAIN_NAMES[:6] + ["class", "a-b", "for", "my name"], k=3)
    roll = rng.random()
    if roll < 0.35:
        out = {
            "type": "object", "title": rng.choice(gs.TITLES),
            "properties": {names[0]: rng.choice([{"type": "number"}, {"type": "integer"}, {}]),
                           names[1]: {"type": "array", "items": [{"type": "number"}, {"type": "integer"}],
                                      "additionalItems": rng.choice([True, {"type": "number"}, {"type": "string"}])},
                           names[2]: {"type": "object", "title": "Inner",
                                      "properties": {"n": {"type": "number"}, "class": {"type": "string"}}}},
            "patternProperties": {"^x_": {"type": "number"}, "o": {}},
            "additionalProperties": rng.choice([True, {"type": ["number", "string"]}, {"type": "integer"}]),
        }
        if rng.random() < 0.4:
            out.pop("type")
            out.pop("title")
        return out
    if roll < 0.55:
        return {"type": "array", "items": rng.choice([{"type": "number"}, {"type": "integer"},
                                                      {"anyOf": [{"type": "integer"}, {"type": "number"}]}]),
                "minItems": 1}
    if roll < 0.8:
        key = rng.choice(["anyOf", "oneOf"])
        branches = [
            {"type": "integer", "minimum": rng.choice([0, 5])},
            {"type": "number"},
            {"type": "object", "title": "Br", "properties": {"a": {"type": "number"}}},
            {"properties": {"a": {"type": "integer"}}, "type": "object", "title": "Br2", "required": ["a"]},
            {"type": "array", "items": {"type": "number"}},
            {"type": "string"},
        ]
        rng.shuffle(branches)
        return {key: branches[: rng.randint(2, 4)]}
    return {"allOf": [rng.choice([{"type": "number"}, {"minimum": 0}, {"type": "object", "title": "AllA"}]),
                      rng.choice([{"type": "integer"}, {"maximum": 10 ** 20}, {"properties": {"a": {"type": "number"}}}])]}


def plain_position(schema):
    """Is this raw schema free of composition / type lists / $ref / const / enum (so that the
    governing sub-schemas of its members are unambiguous)?"""
    return isinstance(schema, dict) and not (
        set(schema) & {"anyOf", "oneOf", "allOf", "not", "$ref"}) and not isinstance(schema.get("type"), list)


def member_schema(schema, key):
    """('declared'|'pattern'|'additional', sub-schema) or (kind, None) when ambiguous."""
    props = schema.get("properties", {})
    patterns = [p for p in schema.get("patternProperties", {}) if re.search(p, key)]
    if key in props and patterns:
        # both apply to the member (Draft 6); the DECLARED property is the one that builds it - that is what
        # makes it "readable under its Python name" as the thing its own schema describes (a float for a
        # number, a model for an object class)
        return "declared+pattern", props[key]
    if key not in props and key in schema.get("required", []):
        # the parser may declare a synthetic accept-anything property for it:
        # which element builds the member is then not determined by the raw schema
        return "required_undeclared", None
    if key in props:
        return "declared", props[key]
    if len(patterns) == 1:
        return "pattern", schema["patternProperties"][patterns[0]]
    if patterns:
        return "pattern", None
    additional = schema.get("additionalProperties", True)
    return "additional", additional if isinstance(additional, dict) else ({} if additional is True else None)


class Walk:
    def __init__(self, ctx, sut, case):
        self.ctx = ctx
        self.sut = sut
        self.case = case
        self.problems = []
        self.finding = None

    def problem(self, path, text, finding=None):
        self.problems.append(f"{path}: {text}")
        if finding and self.finding is None:
            self.finding = finding

    def scalar(self, result, value, schema, path):
        ctx = self.ctx
        ctx.count("members.compared")
        if isinstance(value, bool) or value is None or isinstance(value, str):
            if type(result) is not type(value) or result != value:  # pylint: disable=unidiomatic-typecheck
                self.problem(path, f"{value!r} came back as {result!r}")
            return
        if isinstance(value, float):
            if not isinstance(result, float) or result != value or repr(result) != repr(value):
                self.problem(path, f"{value!r} came back as {result!r}")
            return
        # int input
        if isinstance(result, bool) or not isinstance(result, (int, float)) or result != value:
            self.problem(path, f"{value!r} came back as {result!r}")
            return
        if isinstance(result, float):
            ctx.count("int_to_float")
        typed = schema.get("type") if plain_position(schema) else None
        if typed == "integer":
            if isinstance(result, float):
                self.problem(path, f"integer schema returned the float {result!r} for {value!r}")
            else:
                ctx.count("int_kept_under_integer")
        elif typed == "number":
            has_equal_float = abs(value) < 2 ** 1023 and float(value) == value
            if has_equal_float and not isinstance(result, float):
                self.problem(path, f"number schema returned {result!r} ({type(result).__name__}) for {value!r}")
        elif typed in ("string", "boolean", "null", "array", "object"):
            pass
        elif schema is not None and plain_position(schema) and "type" not in schema and isinstance(result, float):
            self.problem(path, f"untyped schema turned the int {value!r} into the float {result!r}")

    def walk(self, result, value, schema, path, depth=0):
        ctx, sut = self.ctx, self.sut
        if depth > 40 or len(self.problems) > 3:
            return
        if isinstance(value, list):
            if not isinstance(result, list):
                self.problem(path, f"array came back as {type(result).__name__}")
                return
            if len(result) != len(value):
                self.problem(path, f"array of {len(value)} items came back with {len(result)}")
                return
            plain = plain_position(schema)
            items = schema.get("items") if plain else None
            for idx, (sub_r, sub_v) in enumerate(zip(result, value)):
                sub_schema = None
                if plain:
                    if isinstance(items, list):
                        if idx < len(items):
                            sub_schema = items[idx] if isinstance(items[idx], dict) else ({} if items[idx] is True else None)
                            ctx.count("pos.tuple_item")
                        else:
                            add = schema.get("additionalItems", True)
                            sub_schema = add if isinstance(add, dict) else ({} if add is True else None)
                            ctx.count("pos.additional_item")
                    else:
                        sub_schema = items if isinstance(items, dict) else ({} if items in (None, True) else None)
                        ctx.count("pos.list_item")
                self.walk(sub_r, sub_v, sub_schema, f"{path}[{idx}]", depth + 1)
            return
        if isinstance(value, dict):
            self.walk_object(result, value, schema, path, depth)
            return
        self.scalar(result, value, schema if isinstance(schema, dict) else None, path)

    def walk_object(self, result, value, schema, path, depth):
        ctx, sut = self.ctx, self.sut
        is_model = isinstance(result, sut.Object)
        if is_model:
            ctx.count("model_instances")
            declared = dict(type(result).properties or {})
            store = getattr(result, "_dict", None)
            if not isinstance(store, dict):
                self.problem(path, "model instance has no member store")
                return
        elif isinstance(result, dict):
            ctx.count("anon_objects")
            declared = None
            store = result
        else:
            self.problem(path, f"object came back as {type(result).__name__}: {result!r}"[:200])
            return
        plain = plain_position(schema)
        by_source = {}
        if declared is not None:
            by_source = {prop.source: (name, prop) for name, prop in declared.items()}
        elif plain:
            mapper = sut.st_parser._parse_attribute_name  # pylint: disable=protected-access
            by_source = {src: (mapper(src), None) for src in schema.get("properties", {})}
        python_names = {name for name, _p in by_source.values()}
        used = set()
        for key, sub_v in value.items():
            if key in by_source:
                name = by_source[key][0]
                ctx.count("pos.declared_renamed" if name != key else "pos.declared")
            else:
                name = key
            # F05 structural trigger: an undeclared input key equal to a declared Python name
            f05 = key not in by_source and key in python_names
            other_source = [src for src, (nm, _p) in by_source.items() if nm == key and src != key]
            if f05 and other_source and other_source[0] in value:
                finding = "F05"
            else:
                finding = None
            if finding is None and key in by_source and by_source[key][0] != key and \
                    by_source[key][0] in value and by_source[key][0] not in by_source:
                finding = "F05"  # the lookalike key is present next to this renamed property
            if finding is None and declared is None and not plain:
                # schema unknown here: the same structural trigger read off the input alone
                mapper = sut.st_parser._parse_attribute_name  # pylint: disable=protected-access
                if any(other != key and mapper(other) == key for other in value) or (
                        mapper(key) != key and mapper(key) in value):
                    finding = "F05"
            if name not in store and declared is None and not plain:
                # governing schema unknown here (composition / type list above):
                # the member may be declared under its Python name
                alt = sut.st_parser._parse_attribute_name(key)  # pylint: disable=protected-access
                if alt in store:
                    name = alt
                    ctx.count("pos.unknown_schema_lenient_lookup")
            if name not in store:
                self.problem(f"{path}.{key}", f"member missing from the result (looked under {name!r})", finding)
                continue
            used.add(name)
            sub_r = store[name]
            ctx.count("access.item")
            if is_model:
                try:
                    if result[name] is not sub_r:
                        self.problem(f"{path}.{key}", "item access returns another object than the member store")
                except Exception as exc:  # pylint: disable=broad-except
                    self.problem(f"{path}.{key}", f"item access raised {exc!r}")
                if key in by_source:
                    ctx.count("access.attribute")
                    try:
                        if getattr(result, name) is not sub_r:
                            self.problem(f"{path}.{key}", f"attribute {name!r} differs from item {name!r}", finding)
                    except AttributeError:
                        self.problem(f"{path}.{key}", f"declared property not readable as attribute {name!r}")
            elif key in by_source:
                ctx.count("access.attribute")
                try:
                    if getattr(result, name) is not sub_r:
                        self.problem(f"{path}.{key}", "attribute access differs from item access on untyped result")
                except AttributeError:
                    self.problem(f"{path}.{key}", f"untyped result has no attribute {name!r}")
            sub_schema = None
            if plain:
                kind, sub_schema = member_schema(schema, key)
                if kind in ("pattern", "additional", "declared+pattern"):
                    ctx.count("pos." + kind)
            before = len(self.problems)
            self.walk(sub_r, sub_v, sub_schema, f"{path}.{key}", depth + 1)
            if finding and len(self.problems) > before and self.finding is None:
                self.finding = finding
        # members that were not in the input
        for name, extra in store.items():
            if name in used:
                continue
            if declared is None and not plain:
                continue  # declared names unknown at this position
            if name in value and name not in by_source:
                continue
            ok = False
            if declared is not None and name in declared:
                ok = True
            elif declared is None and (name in python_names or not plain):
                ok = True
            if not ok:
                self.problem(f"{path}.{name}", f"member {extra!r} is not in the input and is not a declared property")
                continue
            if isinstance(extra, sut.NotPassed):
                ctx.count("extras.default_or_notpassed")
                continue
            default = sut.NotPassed()
            if declared is not None:
                default = getattr(declared[name].element, "default", sut.NotPassed())
            elif plain:
                src = [s for s, (nm, _p) in by_source.items() if nm == name]
                sub = schema.get("properties", {}).get(src[0]) if src else None
                if isinstance(sub, dict) and "default" in sub:
                    default = sub["default"]
                elif not plain_position(sub):
                    default = None  # unknown (composition): do not judge the value
            if isinstance(default, sut.NotPassed):
                self.problem(f"{path}.{name}", f"member {extra!r} invented for a property without default")
            else:
                ctx.count("extras.default_or_notpassed")


def check_branch(ctx, sut, fpm, element, value, result, case):
    """Composition at the root: result must be the first accepting branch's construction."""
    if not isinstance(element, sut.CompositionElement):
        return
    outcomes = [sut.call(branch, copy.deepcopy(value)) for branch in element.elements]
    ok = [idx for idx, (outcome, _r, _e) in enumerate(outcomes) if outcome == "ok"]
    if not ok:
        return
    if element.mode == "allOf":
        want_idx = 0
    else:
        want_idx = ok[0]
    ctx.count("branch.first_accepting_checked")
    ctx.count("branch.index0" if want_idx == 0 else "branch.index_gt0")
    want = fpm.fp_result(outcomes[want_idx][1])
    got = fpm.fp_result(result)
    if got != want:
        others = [idx for idx in ok if fpm.fp_result(outcomes[idx][1]) == got]
        ctx.witness("not_first_accepting_branch", {**case, "value": value},
                    f"{element.mode}: result {str(got)[:200]} is not the construction of branch {want_idx} "
                    f"({str(want)[:200]}); it matches branches {others}")


def plain_containers(fp):
    """A result fingerprint with the container CLASS of untyped objects ignored: where a schema lets a value
    through as it is, a plain dict stays a plain dict and an attribute-access dict stays what it was - both hold
    the same members."""
    if isinstance(fp, tuple):
        return tuple("dict" if item == "anon" and idx == 0 else plain_containers(item) for idx, item in enumerate(fp))
    return fp


def one_schema(ctx, sut, fpm, idx):
    rng = ctx.rng
    if idx % 3 == 0:
        schema, tag = tmpl_construction(rng), "tmpl_construction"
    else:
        schema, tag = gs.any_schema(rng, gs.Opts(defaults=0.25))
    if not isinstance(schema, dict):
        return
    try:
        if not refmodel.metaschema_valid(schema):
            return
        element = sut.parse_direct(schema)
    except Exception as exc:  # pylint: disable=broad-except
        ctx.count("parse_failed." + type(exc).__name__)
        return
    values = gv.batch_for_schema(rng, schema, schema, count=ctx.params["values"], lookalikes=False)
    values += [gv.satisfy(rng, schema, schema) for _ in range(3)]
    extra = []
    mapper = sut.st_parser._parse_attribute_name  # pylint: disable=protected-access
    for value in values:
        if isinstance(value, dict) and rng.random() < 0.3:
            # keys that look like Python names of declared properties; big ints
            decorated = dict(value)
            props = schema.get("properties", {}) if isinstance(schema.get("properties"), dict) else {}
            for src in list(props)[:2]:
                if mapper(src) != src and rng.random() < 0.5:
                    decorated[mapper(src)] = rng.choice([1, "x", None])
            decorated[rng.choice(["x_1", "zz", "foo"])] = rng.choice([2 ** 53 + 1, 10 ** 30, 7, 1.5, [3, 4.0]])
            extra.append(decorated)
        elif isinstance(value, int) and not isinstance(value, bool) and rng.random() < 0.3:
            extra.append(rng.choice([2 ** 53 + 1, 2 ** 60, 10 ** 25]))
    for value in values + extra:
        ctx.evaluation()
        pristine = copy.deepcopy(value)
        outcome, result, _exc = sut.call(element, value)
        if outcome != "ok":
            ctx.count("rejected")
            continue
        ctx.count("accepted")
        case = {"schema": schema, "template": tag}
        if isinstance(pristine, (list, dict)) and (len(pristine) >= 2 or any(
                isinstance(m, (list, dict)) for m in (pristine.values() if isinstance(pristine, dict) else pristine))):
            ctx.nontrivial(canon([schema, pristine]))
        walker = Walk(ctx, sut, case)
        walker.walk(result, pristine, schema, "$")
        if walker.problems:
            ctx.witness("result_incomplete_or_altered", {**case, "value": pristine},
                        "; ".join(walker.problems[:3]), finding=walker.finding)
            continue
        check_branch(ctx, sut, fpm, element, pristine, result, case)
        if isinstance(pristine, (dict, list)) and ctx.rng.random() < 0.25:
            # the same JSON value after it has been through a permissive element first (what an untyped element
            # hands back still is that JSON value, as dict / list subclasses): same result as for the plain value
            try:
                relay = sut.Element()(copy.deepcopy(pristine))
            except Exception:  # pylint: disable=broad-except
                relay = None
            if relay is not None:
                outcome_r, result_r, _ = sut.call(element, relay)
                ctx.count("relayed_through_untyped_element")
                if outcome_r != "ok" or plain_containers(fpm.fp_result(result_r)) != plain_containers(fpm.fp_result(result)):
                    ctx.witness("result_depends_on_how_the_value_was_held", {**case, "value": pristine},
                                f"the value handed over directly gives {str(fpm.fp_result(result))[:200]}; the same "
                                f"value as returned by Element() gives {outcome_r} {str(fpm.fp_result(result_r) if outcome_r == 'ok' else '')[:200]}")
                    continue
        if isinstance(pristine, (dict, list)) and ctx.rng.random() < 0.3:
            scribble_and_repeat(ctx, sut, fpm, element, pristine, result, case)
    ctx.sample({"schema": schema, "values": [v for v in values[:2]]}, every=60)


def dsl_templates(ctx, sut, fpm, idx):
    """Shapes only the DSL can express: an empty tuple of items (every item is an additional item)."""
    from vlib import gen_dsl  # pylint: disable=import-outside-toplevel

    rng = ctx.rng
    inner = {"t": "Object", "name": f"Row{idx}", "kw": {}, "base": None, "id": 4000 + idx,
             "props": {"entry_id": {"el": {"t": "Integer", "kw": {}}, "required": True, "source": "entry-id"},
                       "x": {"el": {"t": "Number", "kw": {}}, "required": False, "source": None},
                       "note": {"el": {"t": "String", "kw": {"default": "n/a"}}, "required": False, "source": None}}}
    additional = rng.choice([inner, {"t": "Number", "kw": {}}, {"t": "Array", "items": {"t": "Number", "kw": {}}, "kw": {}}])
    spec = rng.choice([
        {"t": "Array", "items": [], "kw": {"additionalItems": additional}},
        {"t": "Element", "kw": {"items": [], "additionalItems": additional}},
        {"t": "Element", "kw": {"properties": {"rows": {"el": {"t": "Array", "items": [], "kw": {"additionalItems": additional}},
                                                        "required": False, "source": None}}}},
    ])
    try:
        element = gen_dsl.build(spec)
    except Exception as exc:  # pylint: disable=broad-except
        ctx.count("build_failed." + type(exc).__name__)
        return
    ctx.count("dsl_templates.empty_tuple")
    # the meaning of an empty tuple: items = additionalItems
    schema = gen_dsl.to_schema(spec)

    def normalise(node):
        if isinstance(node, dict):
            node = {k: normalise(v) for k, v in node.items()}
            if node.get("items") == []:
                node["items"] = node.pop("additionalItems", True)
            return node
        if isinstance(node, list):
            return [normalise(v) for v in node]
        return node

    schema = normalise(schema)
    values = gv.batch_for_schema(rng, schema, schema, count=8, lookalikes=False)
    values += [[{"entry-id": 1, "x": 2}, {"entry-id": 2}], [1, 2.5, 3], {"rows": [{"entry-id": 5, "x": 1}]}, {"rows": [3, 4]}]
    for value in values:
        ctx.evaluation()
        pristine = copy.deepcopy(value)
        outcome, result, _exc = sut.call(element, value)
        if outcome != "ok":
            ctx.count("rejected")
            continue
        ctx.count("accepted")
        case = {"spec": spec}
        walker = Walk(ctx, sut, case)
        walker.walk(result, pristine, schema, "$")
        if walker.problems:
            ctx.witness("result_incomplete_or_altered", {**case, "value": pristine},
                        "; ".join(walker.problems[:3]), finding=walker.finding)
            return
    _ = fpm


def scribble_and_repeat(ctx, sut, fpm, element, pristine, result, case):
    """Members that were not in the input hold their default - also for the NEXT model: the caller
    edits returned default containers in place, then builds the same value again."""
    before = fpm.fp_result(result)
    touched = []
    # an INVALID default is documented to come back as-is, i.e. as the schema's own object: editing that
    # is editing the schema, which is the caller's business - never scribble on those
    try:
        nodes = [element] + list(sut.get_children(element))
    except Exception:  # pylint: disable=broad-except
        nodes = [element]
    raw_defaults = {id(getattr(node, "default", None)) for node in nodes}

    def visit(node, depth=0):
        if depth > 6:
            return
        if isinstance(node, sut.Object):
            store = getattr(node, "_dict", {})
        elif isinstance(node, dict):
            store = node
        elif isinstance(node, list):
            for member in node:
                visit(member, depth + 1)
            return
        else:
            return
        for member in list(store.values()):
            if id(member) in raw_defaults:
                continue
            visit(member, depth + 1)
            if isinstance(member, list):
                member.append("caller-edit")
                touched.append(1)
            elif isinstance(member, dict) and not isinstance(member, sut.Object):
                member["caller-edit"] = 1
                touched.append(1)

    visit(result)
    if not touched:
        return
    ctx.count("repeat_after_caller_edit")
    outcome, again, _ = sut.call(element, copy.deepcopy(pristine))
    if outcome != "ok" or fpm.fp_result(again) != before:
        ctx.witness("result_depends_on_earlier_result", {**case, "value": pristine},
                    "after the caller edited containers of the first result in place, building the same value "
                    f"again gave {str(fpm.fp_result(again) if outcome == 'ok' else outcome)[:300]} instead of "
                    f"{str(before)[:300]}")


def one_family(ctx, sut, fpm, idx):
    """Model classes written in the DSL with inheritance: every class of the chain is used, base
    classes FIRST, and each result is walked against the class's merged schema."""
    from vlib import gen_dsl  # pylint: disable=import-outside-toplevel

    rng = ctx.rng
    gen = gen_dsl.Gen(rng, max_depth=1, share=0.0, inheritance=1.0, renames=0.5, defaults=0.2,
                      keyword_names=0.3 if (idx // 4) % 2 else 0.0)
    chain = [gen.klass(1)]
    for _ in range(rng.randint(1, 3)):
        chain.append(gen.klass(1, base=chain[-1]["id"]))
        inherited = {name: prop for node in chain[:-1] for name, prop in node["props"].items()}
        if inherited and rng.random() < 0.5:
            # the new class re-declares a property it inherits (another element, another default): classes
            # further down must see THIS declaration, not the one of a more distant ancestor
            numeric = [n for n in sorted(inherited) if inherited[n]["el"].get("t") in ("Integer", "Number")]
            if numeric and rng.random() < 0.7:
                # ... the other numeric kind with the same keywords: an int member then has to come back as
                # float under the one and stay int under the other
                name = rng.choice(numeric)
                redeclared = copy.deepcopy(inherited[name])
                redeclared["el"]["t"] = "Number" if redeclared["el"]["t"] == "Integer" else "Integer"
                redeclared["el"].pop("id", None)
                redeclared["required"] = True
            else:
                name = rng.choice(sorted(inherited))
                redeclared = gen.prop(1, name)
            redeclared["source"] = inherited[name].get("source")
            chain[-1]["props"][name] = redeclared
            ctx.count("family.property_redeclared")
    index = {}
    for node in chain:
        gen_dsl.index_specs(node, index)
    memo = {"__index__": index}
    try:
        classes = [gen_dsl.build(node, memo) for node in chain]
    except Exception as exc:  # pylint: disable=broad-except
        ctx.count("build_failed." + type(exc).__name__)
        return
    ctx.count("families")
    order = list(range(len(chain)))
    if idx % 3 == 0:
        order.reverse()  # sometimes the most derived class first
    for level in order:
        schema = gen_dsl.to_schema(chain[level], index)
        values = gv.batch_for_schema(rng, schema, schema, count=6, lookalikes=False)
        for value in values:
            ctx.evaluation()
            pristine = copy.deepcopy(value)
            outcome, result, _exc = sut.call(classes[level], value)
            if outcome != "ok":
                ctx.count("rejected")
                continue
            ctx.count("accepted")
            ctx.count("family.accepted_level%d" % min(level, 2))
            case = {"chain": chain, "level": level, "order": order}
            if isinstance(pristine, dict) and len(pristine) >= 2:
                ctx.nontrivial(canon([chain, level, pristine]))
            walker = Walk(ctx, sut, case)
            walker.walk(result, pristine, schema, "$")
            if walker.problems:
                ctx.witness("result_incomplete_or_altered", {**case, "value": pristine},
                            "; ".join(walker.problems[:3]), finding=walker.finding)
                return
    _ = fpm


def shared_property_owners(ctx, sut, idx):
    """One `Property` object declared by two owners under different Python names (with an explicit JSON name):
    whichever owner validates, ITS declared name is the one the member is readable under."""
    rng = ctx.rng
    source = rng.choice(["n", "user-id", "class"])
    shared = sut.Property(sut.Integer(), required=rng.random() < 0.5, source=source)
    first_name, second_name = rng.sample(["first", "second", "user_id", "ident", "group_id"], k=2)
    kind = idx % 3
    try:
        if kind == 0:
            first = sut.Object.inline(f"OwnerA{idx}", properties={"lead": sut.Property(sut.String()), first_name: shared})
            second = sut.Object.inline(f"OwnerB{idx}", properties={second_name: shared})
        elif kind == 1:
            first = sut.Element(properties={first_name: shared})
            second = sut.Element(properties={second_name: shared, "tail": sut.Property(sut.String())})
        else:
            first = sut.Object.inline(f"OwnerA{idx}", properties={first_name: shared})
            second = sut.Element(properties={second_name: shared})
    except Exception as exc:  # pylint: disable=broad-except
        ctx.count("shared_owners.build_failed." + type(exc).__name__)
        return
    case = {"shared_property": {"source": source, "names": [first_name, second_name], "kind": kind}}
    for round_no in range(2):
        for owner, name in ((first, first_name), (second, second_name), (first, first_name)):
            value = {source: rng.randint(-5, 5), **({"lead": "x"} if kind == 0 and owner is first else {})}
            ctx.evaluation()
            ctx.count("shared_owners.calls")
            outcome, result, exc = sut.call(owner, copy.deepcopy(value))
            if outcome != "ok":
                ctx.witness("result_incomplete_or_altered", {**case, "value": value},
                            f"owner declaring {name!r} rejected {value!r}: {outcome} {exc!r}"[:300])
                return
            store = result._dict if isinstance(result, sut.Object) else result  # pylint: disable=protected-access
            problems = []
            if name not in store or store[name] != value[source]:
                problems.append(f"member {source!r} is not readable under the owner's own name {name!r}: {dict(store)!r}")
            other = second_name if name == first_name else first_name
            if other in store:
                problems.append(f"a member {other!r} (the OTHER owner's name) is in the result")
            if isinstance(result, sut.Object) and getattr(result, name, None) != value[source]:
                problems.append(f"attribute {name!r} does not hold the member")
            if problems:
                ctx.witness("result_incomplete_or_altered", {**case, "value": value, "round": round_no},
                            "; ".join(problems)[:400])
                return
    ctx.count("shared_owners.ok")


def run_shard(ctx):
    from vlib import fingerprint as fpm  # pylint: disable=import-outside-toplevel
    from vlib import sut  # pylint: disable=import-outside-toplevel

    for idx in range(24):
        shared_property_owners(ctx, sut, idx)

    for idx in range(ctx.params["schemas"]):
        one_schema(ctx, sut, fpm, idx)
        if idx % 4 == 0:
            one_family(ctx, sut, fpm, idx)
        if idx % 6 == 0:
            dsl_templates(ctx, sut, fpm, idx)


def replay(case, ctx):
    from vlib import fingerprint as fpm  # pylint: disable=import-outside-toplevel
    from vlib import sut  # pylint: disable=import-outside-toplevel

    if "shared_property" in case:
        for idx in range(24):
            shared_property_owners(ctx, sut, idx)
        return
    if "spec" in case:
        from vlib import gen_dsl  # pylint: disable=import-outside-toplevel

        element = gen_dsl.build(case["spec"])
        outcome, result, _ = sut.call(element, copy.deepcopy(case["value"]))
        ctx.evaluation()
        if outcome == "ok":
            walker = Walk(ctx, sut, case)
            walker.walk(result, copy.deepcopy(case["value"]), None, "$")
            if walker.problems:
                ctx.witness("result_incomplete_or_altered", case, "; ".join(walker.problems[:3]))
        return
    if "chain" in case:
        from vlib import gen_dsl  # pylint: disable=import-outside-toplevel

        index = {}
        for node in case["chain"]:
            gen_dsl.index_specs(node, index)
        memo = {"__index__": index}
        classes = [gen_dsl.build(node, memo) for node in case["chain"]]
        for level in case.get("order", range(len(classes))):
            schema = gen_dsl.to_schema(case["chain"][level], index)
            value = copy.deepcopy(case["value"])
            outcome, result, _ = sut.call(classes[level], value)
            ctx.evaluation()
            if outcome == "ok" and level == case["level"]:
                walker = Walk(ctx, sut, case)
                walker.walk(result, copy.deepcopy(case["value"]), schema, "$")
                if walker.problems:
                    ctx.witness("result_incomplete_or_altered", case, "; ".join(walker.problems[:3]),
                                finding=walker.finding)
        return
    element = sut.parse_direct(case["schema"])
    value = case["value"]
    pristine = copy.deepcopy(value)
    outcome, result, _ = sut.call(element, value)
    ctx.evaluation()
    if outcome != "ok":
        return
    walker = Walk(ctx, sut, case)
    walker.walk(result, pristine, case["schema"], "$")
    if walker.problems:
        ctx.witness("result_incomplete_or_altered", case, "; ".join(walker.problems[:3]), finding=walker.finding)
        return
    check_branch(ctx, sut, fpm, element, pristine, result, {"schema": case["schema"]})
