"""C15 - a subclass model means its parent's schema plus its own additions."""
import copy
import random

from vlib import gen_dsl
from vlib import gen_values as gv
from vlib import refmodel
from vlib.checks.c17 import normalise_json
from vlib.runner import canon

PROPERTY = "C15"
TECHNIQUE = (
    "runtime monitoring: differential oracle (child class vs the equivalent flat class built by the "
    "harness from the documented merge rule, on verdicts, results and serialize_json) plus the purity "
    "monitor applied to the parent around every operation on the child (define, use, reconfigure)"
)
RULE = (
    "family = chain of 2..5 model classes; every class keyword inherited / overridden / overridden with "
    "a falsy value; properties added, overridden, renamed; explicit required on either side; then "
    "validations and C13-style reconfiguration of the child; non-trivial = child overrides or adds at "
    "least one keyword or property and the value batch has accepted and rejected values; distinct by "
    "family spec"
)
ASSUMPTIONS = [
    "merge rule (documented): child keyword if passed else inherited; parent properties then child "
    "properties, override by attribute name; additionalProperties defaults to true at the root",
    "in-place mutation of an element object or keyword container that parent and child both reference "
    "is not 'reconfiguring the subclass' (objects are shared by reference throughout the DSL); only "
    "reassignment of class attributes, properties[...] assignment/deletion and prop.required are driven",
]
CLASS_KWS = ["default", "const", "enum", "required", "minProperties", "maxProperties", "patternProperties",
             "additionalProperties", "propertyNames", "dependencies", "description"]
REQUIRED_COUNTERS = (
    ["families", "values.accepted", "values.rejected", "child_vs_flat.compared", "json.compared",
     "isinstance.checked", "parent.snapshots", "childop.define", "childop.validate", "childop.prop_add",
     "childop.prop_del", "childop.prop_flip_required", "childop.class_kw", "prop.added", "prop.overridden",
     "falsy_override", "depth.3plus", "parent_reconfigured_before_subclassing",
     "grandparent_reconfigured_after_parent_exists", "nested_literals.edits", "nested_literals.depth_2"]
    + [f"inherit.{k}" for k in CLASS_KWS] + [f"override.{k}" for k in CLASS_KWS]
)
FALSY = {
    "default": [0, False, "", None, {}], "const": [0, False, {}], "enum": [[0], [False, None]],
    "required": [[]], "minProperties": [0], "maxProperties": [0], "patternProperties": [{}],
    "additionalProperties": [False], "dependencies": [{}], "description": [""],
}

ANCHORS = [
    "statham.schema.elements.meta:ObjectMeta.__new__",
    "statham.schema.property:_Property.clone",
    "statham.schema.elements.meta:ObjectMeta.validators",
]


def plan(tier):
    if tier == "quick":
        return {"shards": 16, "families": 100, "values": 10, "timeout": 900}
    return {"shards": 16, "families": 5000, "values": 12, "timeout": 7200}


def class_kw_value(rng, gen, key):
    if key == "default":
        return rng.choice([{}, {"a": 1}, {"zz": "x"}, 5, {"a": True}, {"a": 1.0}])
    if key == "const":
        # (lookalikes on purpose: a child may override {"a": 1} by {"a": true} - equal in Python, not in JSON)
        return rng.choice([{}, {"a": 1}, {"a": "x", "b": 2}, {"a": True}, {"a": 1.0}, {"a": 0}, {"a": False}])
    if key == "enum":
        return rng.choice([[{}, {"a": 1}], [{"a": "x"}, {"b": 1}, {}], [{}, {"a": True}], [{"a": 1}], [{"a": True}],
                           [{"a": 0}, {}], [{"a": False}, {}]])
    if key == "required":
        return rng.sample(["a", "b", "zz", "class", "foo"], k=rng.randint(1, 2))
    if key == "minProperties":
        return rng.choice([1, 2])
    if key == "maxProperties":
        return rng.choice([1, 2, 3])
    if key == "patternProperties":
        return {rng.choice(sorted(gv.PATTERNS)): gen.spec(1)}
    if key == "additionalProperties":
        # (True is a real override too: a child may re-open a parent that closed its additional properties)
        return rng.choice([False, gen.spec(1), True, True])
    if key == "propertyNames":
        inner = {}
        gen.string(inner)
        return {"t": "String", "kw": inner}
    if key == "dependencies":
        return {rng.choice(["a", "b", "zz"]): rng.choice([["a"], ["zz", "b"], gen.spec(1)])}
    if key == "description":
        return rng.choice(["desc", "other description"])
    raise KeyError(key)


def make_family(ctx, rng):
    """Specs of a chain root..leaf; each child records what it overrides."""
    gen = gen_dsl.Gen(rng, max_depth=1, classes=False, share=0.0, defaults=0.2, renames=0.5)
    depth = rng.choice([2, 2, 2, 3, 3, 4, 5])
    chain = []
    nid = 1000
    for level in range(depth):
        nid += 1
        node = {"t": "Object", "name": f"L{level}", "kw": {}, "props": {}, "base": None, "id": nid}
        if chain:
            node["base"] = {"t": "ref", "id": chain[-1]["id"]}
        inherited_kw = gen_dsl.effective_class(chain[-1], {c["id"]: c for c in chain})[0] if chain else {}
        inherited_props = gen_dsl.effective_class(chain[-1], {c["id"]: c for c in chain})[1] if chain else {}
        for key in CLASS_KWS:
            roll = rng.random()
            if roll < 0.22:
                node["kw"][key] = class_kw_value(rng, gen, key)
            elif roll < 0.30 and key in FALSY:
                node["kw"][key] = copy.deepcopy(rng.choice(FALSY[key]))
                if key in inherited_kw:
                    ctx.count("falsy_override")
            if chain:
                if key in node["kw"] and key in inherited_kw:
                    ctx.count("override." + key)
                elif key in inherited_kw and key not in node["kw"]:
                    ctx.count("inherit." + key)
        for name in gen.prop_names(rng.randint(0, 3)):
            node["props"][name] = gen.prop(2, name)
            ctx.count("prop.overridden" if name in inherited_props else "prop.added")
        if inherited_props and rng.random() < 0.5:
            name = rng.choice(sorted(inherited_props))
            node["props"][name] = gen.prop(2, name)
            ctx.count("prop.overridden")
        if "default" in node["kw"] and rng.random() < 0.3:
            node["default_in_body"] = True
        if chain and rng.random() < 0.15:
            # `class Account(generated.Account)`: a subclass that keeps its parent's name
            node["name"] = chain[-1]["name"]
            ctx.count("child_named_like_parent")
        if inherited_props and rng.random() < 0.15:
            # a new attribute whose JSON name is the one an inherited property (under another attribute) has
            held = rng.choice(sorted(inherited_props))
            json_name = inherited_props[held].get("source") or held
            attr = "alias_" + str(level)
            if attr not in inherited_props and attr not in node["props"]:
                node["props"][attr] = dict(gen.prop(2, attr), source=json_name)
                ctx.count("child_property_with_inherited_json_name")
        chain.append(node)
    if depth >= 3:
        ctx.count("depth.3plus")
    return chain


def flat_spec(chain, upto):
    """The single class equivalent to chain[upto] (documented merge rule)."""
    index = {c["id"]: c for c in chain}
    kw, props = gen_dsl.effective_class(chain[upto], index)
    return {"t": "Object", "name": chain[upto]["name"], "kw": copy.deepcopy(kw),
            "props": copy.deepcopy(props), "base": None, "id": 5000 + upto}


def build_chain(chain):
    memo = {"__index__": {c["id"]: c for c in chain}}
    return [gen_dsl.build(node, memo) for node in chain]


def parent_observation(sut, monitors, parent, values):
    snap = monitors.PuritySnapshot(parent)
    verdicts = tuple(sut.call(parent, copy.deepcopy(v))[0] for v in values)
    return snap, verdicts


def check_parent(ctx, before, sut, monitors, parent, values, op, case, finding=None):
    ctx.count("parent.snapshots")
    snap, verdicts = parent_observation(sut, monitors, parent, values)
    changed = before[0].diff(snap)
    if changed:
        ctx.witness("parent_changed", {**case, "after": op},
                    f"after '{op}' on the child the parent's {changed} differ: "
                    f"{monitors.first_difference(before[0].fp, snap.fp)}", finding=finding)
        return False
    if verdicts != before[1]:
        ctx.witness("parent_verdicts_changed", {**case, "after": op},
                    f"after '{op}' on the child the parent validates differently", finding=finding)
        return False
    return True


def eff_spec(chain, eff, level):
    """The single class equivalent to class `level` as the documented rule makes it: inheritance copies
    the parent's merged configuration AT THE MOMENT the subclass is defined; later changes of an
    ancestor do not propagate."""
    kw, props = eff[level]
    return {"t": "Object", "name": chain[level]["name"], "kw": copy.deepcopy(kw),
            "props": copy.deepcopy(props), "base": None, "id": 5000 + level}


def python_image(ctx, sut, fpm, child, ancestors, values, case, flat=None):
    """`serialize_python(child)` declares `class Child(Parent, ...)`: executed next to the real ancestors
    it must give a class that validates and serializes like the child itself."""
    try:
        text = sut.serialize_python(child)
    except Exception as exc:  # pylint: disable=broad-except
        # "serializes exactly like a single class declared with the merged properties": if the flat class can
        # be written as Python, so can the subclass
        try:
            sut.serialize_python(flat)
        except Exception:  # pylint: disable=broad-except
            ctx.count("python_image.flat_unserializable_too")
            return
        ctx.witness("python_image_refused", case,
                    f"serialize_python(child) raised {type(exc).__name__}: {exc!r}, the flat class serializes"[:400])
        return
    try:
        namespace = {anc.__name__: anc for anc in ancestors}
        exec(compile(text, "<generated>", "exec"), namespace)  # pylint: disable=exec-used
        rebuilt = namespace[child.__name__]
    except Exception as exc:  # pylint: disable=broad-except
        ctx.count("python_image.unusable." + type(exc).__name__)
        return
    ctx.count("python_image.executed")
    for value in values:
        out_c, res_c, _ = sut.call(child, copy.deepcopy(value))
        out_r, res_r, exc_r = sut.call(rebuilt, copy.deepcopy(value))
        if sut.accepted(out_c) != sut.accepted(out_r) or (
                out_c == "ok" and fpm.fp_result(res_c) != fpm.fp_result(res_r)):
            ctx.witness("python_image_differs", {**case, "value": value},
                        f"child -> {out_c}, class rebuilt from its generated Python -> {out_r} ({exc_r!r})"[:400])
            return
    try:
        json_c = normalise_json(sut.serialize_json(child))
        json_r = normalise_json(sut.serialize_json(rebuilt))
    except Exception:  # pylint: disable=broad-except
        return
    if not refmodel.json_eq(json_c, json_r):
        ctx.witness("python_image_differs", case,
                    f"JSON of the rebuilt class differs: {str(json_r)[:250]} vs {str(json_c)[:250]}")


def reused_property_object(ctx, sut, fpm, idx):
    """A subclass may declare the parent's own `Property` OBJECT again under a new name
    (`label = Parent.properties["name"]`): the parent keeps reading and exposing it under its own name."""
    parent = sut.Object.inline(f"ReuseParent{idx}", properties={
        "lead": sut.Property(sut.String()), "name": sut.Property(sut.String(), required=idx % 2 == 0,
                                                                  source=["name", "display-name"][idx % 2])})
    value = {"lead": "l", ["name", "display-name"][idx % 2]: "x"}
    before = sut.call(parent, copy.deepcopy(value))
    held = fpm.fp_result(before[1]) if before[0] == "ok" else None
    try:
        from statham.schema.elements.meta import ObjectClassDict  # pylint: disable=import-outside-toplevel

        body = ObjectClassDict()
        body["label"] = parent.properties["name"]
        child = sut.ObjectMeta(f"ReuseChild{idx}", (parent,), body)
        sut.call(child, {**value, "extra": 1})
    except Exception as exc:  # pylint: disable=broad-except
        ctx.count("reused_property.child_refused." + type(exc).__name__)
        return
    ctx.evaluation()
    ctx.count("reused_property.families")
    after = sut.call(parent, copy.deepcopy(value))
    if after[0] != before[0] or (after[0] == "ok" and fpm.fp_result(after[1]) != held) or (
            after[0] == "ok" and getattr(after[1], "name", None) != "x"):
        ctx.witness("parent_changed", {"reused_property": idx},
                    f"after a subclass re-declared the parent's Property object as `label`, the parent gives "
                    f"{after[0]} {fpm.fp_result(after[1]) if after[0] == 'ok' else after[2]!r}; before: {held}"[:500])


def nested_inherited_literals(ctx, sut, idx):
    """A subclass inherits keyword values that hold containers at several depths (a dict inside a default, a list
    inside an enum member, the name lists of `dependencies`); editing any of them through the subclass - at
    whatever depth - leaves the base class's value and verdicts alone."""
    rng = random.Random(idx)
    kws = {
        "default": {"a": {"b": [1, {"c": 2}]}, "z": [[0]]},
        "const": {"a": {"b": [1, {"c": 2}]}, "z": [[0]]},
        "enum": [[1, 2], {"k": [1, {"m": []}]}, {"a": {"b": [1, {"c": 2}]}, "z": [[0]]}],
        "required": ["a"],
        "dependencies": {"a": ["z"], "z": ["a"]},
    }
    use = {key: copy.deepcopy(val) for key, val in kws.items() if key != "const" or idx % 3 == 0}
    try:
        from statham.schema.elements.meta import ObjectClassDict  # pylint: disable=import-outside-toplevel

        parent = sut.ObjectMeta(f"DeepParent{idx}", (sut.Object,), ObjectClassDict(), **use)
        classes = [parent]
        for level in range(1 + idx % 3):
            classes.append(sut.ObjectMeta(f"DeepChild{idx}_{level}", (classes[-1],), ObjectClassDict()))
    except Exception as exc:  # pylint: disable=broad-except
        ctx.count("nested_literals.refused." + type(exc).__name__)
        return
    probes = [{"a": {"b": [1, {"c": 2}]}, "z": [[0]]}, {"a": {"b": [1, {"c": 2}]}, "z": [[0, 9]]}, {}, {"a": 1},
              {"a": {"b": [1, {"c": 2, "edited": 1}]}, "z": [[0]]}]

    def observe(cls):
        return ({key: copy.deepcopy(getattr(cls, key, None)) for key in use},
                [sut.call(cls, copy.deepcopy(probe))[0] for probe in probes])

    leaf = classes[-1]
    for _ in range(4):
        before = [observe(cls) for cls in classes[:-1]]
        key = rng.choice(sorted(use))
        node, path = getattr(leaf, key), [key]
        # walk to a container at a random depth, then edit it in place
        while True:
            inner = [(k, v) for k, v in (node.items() if isinstance(node, dict) else enumerate(node))
                     if isinstance(v, (list, dict))]
            if not inner or rng.random() < 0.3:
                break
            step, node = rng.choice(inner)
            path.append(step)
        if isinstance(node, dict):
            node["edited"] = 1
        else:
            node.append("edited")
        ctx.evaluation()
        ctx.count("nested_literals.edits")
        ctx.count("nested_literals.depth_%d" % min(len(path) - 1, 3))
        for cls, held in zip(classes[:-1], before):
            if observe(cls) != held:
                ctx.witness("parent_changed", {"nested_literals": idx},
                            f"editing {path} in place on {leaf.__name__} changed {cls.__name__}: "
                            f"{str(observe(cls))[:200]} (before: {str(held)[:200]})")
                return


def run_family(ctx, sut, monitors, fpm, rng, chain):
    case = {"chain": chain}
    index = {c["id"]: c for c in chain}
    eff = []  # per level: (merged class keywords, merged properties) as of now
    history = []
    case["reconfigurations"] = history
    try:
        classes = []
        memo = {"__index__": index}
        parent_obs = []
        for level, node in enumerate(chain):
            if level and rng.random() < 0.4:
                # define ancestors -> reconfigure one of them -> define the next class
                target = rng.choice([level - 1, level - 1, rng.randrange(level)])
                anc_cls = classes[target]
                kw_t, props_t = eff[target]
                gen0 = gen_dsl.Gen(rng, max_depth=0, classes=False, share=0.0)
                op = rng.choice(["add", "replace", "delete"])
                try:
                    if op == "add" or not props_t:
                        name = rng.choice([n for n in gen_dsl.PY_NAMES if n not in props_t] or ["zzz"])
                        pspec = {"el": gen0.spec(0), "required": rng.random() < 0.5, "source": None}
                        props_t[name] = pspec
                        anc_cls.properties[name] = sut.Property(gen_dsl.build(pspec["el"]), required=pspec["required"])
                    elif op == "replace":
                        name = rng.choice(sorted(props_t))
                        pspec = {"el": gen0.spec(0), "required": rng.random() < 0.5,
                                 "source": props_t[name].get("source")}
                        props_t[name] = pspec
                        anc_cls.properties[name] = sut.Property(
                            gen_dsl.build(pspec["el"]), required=pspec["required"], source=pspec["source"])
                    else:
                        name = rng.choice(sorted(props_t))  # own or inherited: gone from this class
                        del props_t[name]
                        del anc_cls.properties[name]
                    history.append([f"before defining L{level}", f"{op} {name} on L{target}"])
                    ctx.count("parent_reconfigured_before_subclassing")
                    if target < level - 1:
                        ctx.count("grandparent_reconfigured_after_parent_exists")
                    # the observation of that class starts from its new configuration
                    flat_now = eff_spec(chain, eff, target)
                    schema = gen_dsl.to_schema(flat_now, gen_dsl.index_specs(flat_now))
                    values = gv.batch_for_schema(rng, schema, schema, count=6)
                    parent_obs[target] = {"values": values,
                                          "obs": parent_observation(sut, monitors, anc_cls, values)}
                except Exception as exc:  # pylint: disable=broad-except
                    ctx.count("parent_reconfig_refused." + type(exc).__name__)
            cls = gen_dsl.build(node, memo)
            classes.append(cls)
            kw_parent, props_parent = eff[level - 1] if level else ({}, {})
            kw_here = {**copy.deepcopy(kw_parent), **copy.deepcopy(node.get("kw", {}))}
            props_here = {**copy.deepcopy(props_parent), **copy.deepcopy(node.get("props", {}))}
            eff.append((kw_here, props_here))
            # isolation of all ancestors when a child is *defined*
            for anc_level, obs in enumerate(parent_obs):
                ctx.count("childop.define")
                check_parent(ctx, obs["obs"], sut, monitors, classes[anc_level], obs["values"],
                             f"define L{level}", case)
            flat_now = eff_spec(chain, eff, level)
            schema = gen_dsl.to_schema(flat_now, gen_dsl.index_specs(flat_now))
            values = gv.batch_for_schema(rng, schema, schema, count=6)
            parent_obs.append({"values": values,
                               "obs": parent_observation(sut, monitors, cls, values)})
    except Exception as exc:  # pylint: disable=broad-except
        ctx.count("build_failed." + type(exc).__name__)
        return
    ctx.count("families")
    accepted = rejected = 0
    for level in range(1, len(chain)):
        child = classes[level]
        flat_s = eff_spec(chain, eff, level)
        try:
            flat = gen_dsl.build(flat_s, {"__index__": gen_dsl.index_specs(flat_s)})
        except Exception as exc:  # pylint: disable=broad-except
            ctx.count("flat_build_failed." + type(exc).__name__)
            continue
        schema = gen_dsl.to_schema(flat_s, gen_dsl.index_specs(flat_s))
        values = gv.batch_for_schema(rng, schema, schema, count=ctx.params["values"])
        for value in values:
            ctx.evaluation()
            ctx.count("child_vs_flat.compared")
            out_c, res_c, exc_c = sut.call(child, copy.deepcopy(value))
            out_f, res_f, _ = sut.call(flat, copy.deepcopy(value))
            ctx.count("childop.validate")
            if out_c == "ok":
                accepted += 1
                ctx.count("values.accepted")
            else:
                rejected += 1
                ctx.count("values.rejected")
            if sut.accepted(out_c) != sut.accepted(out_f):
                allowed = refmodel.verdicts(schema, value, schema, curated=gv.CURATED)
                ctx.witness("child_differs_from_flat", {**case, "level": level, "value": value},
                            f"child L{level} -> {out_c} ({exc_c!r}) but the equivalent flat class -> {out_f}; "
                            f"merged schema says {sorted(allowed)}"[:600])
                break
            if out_c == "ok":
                if fpm.fp_result(res_c) != fpm.fp_result(res_f):
                    ctx.witness("child_result_differs_from_flat", {**case, "level": level, "value": value},
                                f"results differ: {str(fpm.fp_result(res_c))[:250]} vs {str(fpm.fp_result(res_f))[:250]}")
                    break
                ctx.count("isinstance.checked")
                if isinstance(res_c, sut.Object):
                    for anc in classes[:level]:
                        if not isinstance(res_c, anc):
                            ctx.witness("not_instance_of_parent", {**case, "level": level, "value": value},
                                        f"instance of L{level} is not an instance of {anc.__name__}")
                            continue
                        # ... and is therefore usable wherever the parent is expected: as the value of the
                        # parent itself, and as a member of an array of parents
                        held = fpm.fp_result(res_c)
                        out_p, res_p, exc_p = sut.call(anc, res_c)
                        out_a, _res_a, exc_a = sut.call(sut.Array(anc), [res_c])
                        ctx.count("instance_where_parent_expected")
                        # an instance of the parent and an instance of the child are different things even
                        # when they hold the same data (as instances of two flat classes would be)
                        out_anc, anc_inst, _ = sut.call(anc, copy.deepcopy(value))
                        if out_anc == "ok" and isinstance(anc_inst, sut.Object) and type(anc_inst) is not type(res_c):
                            out_u, _ru, exc_u = sut.call(sut.Array(sut.Element(), uniqueItems=True), [anc_inst, res_c])
                            out_e, _re, _ = sut.call(sut.Element(enum=[anc_inst]), res_c)
                            ctx.count("parent_and_child_instances_compared")
                            if out_u != "ok" or out_e == "ok":
                                ctx.witness("child_instance_equals_parent_instance",
                                            {**case, "level": level, "value": value},
                                            f"[{anc.__name__}(v), L{level}(v)] under uniqueItems -> {out_u} {exc_u!r}; "
                                            f"enum=[{anc.__name__}(v)] on L{level}(v) -> {out_e}"[:400])
                        if out_p != "ok" or res_p is not res_c or out_a != "ok" or fpm.fp_result(res_c) != held:
                            ctx.witness("child_instance_refused_by_parent", {**case, "level": level, "value": value},
                                        f"{anc.__name__}(instance of L{level}) -> {out_p} {exc_p!r}; "
                                        f"Array({anc.__name__})([instance]) -> {out_a} {exc_a!r}"[:400])
        try:
            json_c = normalise_json(sut.serialize_json(child))
            json_f = normalise_json(sut.serialize_json(flat))
            ctx.count("json.compared")
            if not refmodel.json_eq(json_c, json_f):
                ctx.witness("child_json_differs_from_flat", {**case, "level": level},
                            f"serialize_json(child) != serialize_json(flat): {str(json_c)[:300]} vs {str(json_f)[:300]}")
        except Exception as exc:  # pylint: disable=broad-except
            ctx.count("serialize_failed." + type(exc).__name__)
        try:
            # ... also when the child is serialized NEXT TO its parent, neither of them being the document's
            # own class (both land in "definitions")
            holder = sut.Element(properties={"p": sut.Property(classes[level - 1]), "c": sut.Property(child),
                                             "cs": sut.Property(sut.Array(child))})
            held = normalise_json(sut.serialize_json(holder))
            json_f = normalise_json(sut.serialize_json(flat))
            ctx.count("json.child_next_to_parent_compared")
            for where, got in (("c", held["properties"]["c"]), ("cs", held["properties"]["cs"].get("items"))):
                if not refmodel.json_eq(got, json_f):
                    ctx.witness("child_json_differs_from_flat", {**case, "level": level, "next_to_parent": where},
                                f"child serialized next to its parent differs from the flat class: {str(got)[:250]} "
                                f"vs {str(json_f)[:250]}")
                    break
        except Exception as exc:  # pylint: disable=broad-except
            ctx.count("serialize_failed." + type(exc).__name__)
        if not history:
            # (executing `class Child(Parent)` derives from the parent AS IT IS NOW: comparable with the child
            # only when no ancestor was reconfigured after the child had been defined)
            python_image(ctx, sut, fpm, child, classes[:level], values, {**case, "level": level}, flat)
        # using the child must not have touched any ancestor
        for anc_level in range(level):
            check_parent(ctx, parent_obs[anc_level]["obs"], sut, monitors, classes[anc_level],
                         parent_obs[anc_level]["values"], f"validate L{level}", case)
    # reconfigure the leaf, watch all ancestors
    leaf = classes[-1]
    gen = gen_dsl.Gen(rng, max_depth=0, classes=False, share=0.0)
    ops = []
    for _ in range(rng.randint(2, 6)):
        op = rng.choice(["prop_add", "prop_del", "prop_flip_required", "class_kw", "class_kw_in_place", "validate"])
        try:
            if op == "prop_add":
                name = rng.choice(gen_dsl.PY_NAMES)
                leaf.properties[name] = sut.Property(gen_dsl.build(gen.spec(0)), required=rng.random() < 0.5)
            elif op == "prop_del":
                if not leaf.properties:
                    continue
                del leaf.properties[rng.choice(sorted(leaf.properties))]
            elif op == "prop_flip_required":
                if not leaf.properties:
                    continue
                prop = leaf.properties[rng.choice(sorted(leaf.properties))]
                prop.required = not prop.required
            elif op == "class_kw_in_place":
                # reconfigure the child by editing the keyword value it HAS (possibly the one it inherited)
                candidates = [key for key in ("required", "enum", "dependencies", "patternProperties")
                              if isinstance(getattr(leaf, key, None), (list, dict))]
                if not candidates:
                    continue
                key = rng.choice(candidates)
                held = getattr(leaf, key)
                if key == "required":
                    held.append(rng.choice(["zzz", "a", "q"]))
                elif key == "enum":
                    held.append({"in_place": 1})
                elif key == "dependencies":
                    lists = [k for k, v in held.items() if isinstance(v, list)]
                    if lists and rng.random() < 0.6:
                        held[rng.choice(sorted(lists))].append("in_place")   # one level further down
                    else:
                        held["zz"] = ["in_place"]
                else:
                    held["^in_place"] = sut.Nothing()
                ctx.count("childop.in_place." + key)
            elif op == "class_kw":
                key = rng.choice(["minProperties", "maxProperties", "required", "additionalProperties",
                                  "const", "enum", "default", "patternProperties", "dependencies"])
                value = class_kw_value(rng, gen, key)
                if isinstance(value, dict) and key in ("patternProperties", "dependencies"):
                    value = {k: (gen_dsl.build(v) if isinstance(v, dict) and "t" in v else v)
                             for k, v in value.items()}
                elif isinstance(value, dict) and "t" in value:
                    value = gen_dsl.build(value)
                setattr(leaf, key, value)
            else:
                sut.call(leaf, gv.random_value(rng, 2))
        except Exception as exc:  # pylint: disable=broad-except
            ctx.count("childop_refused." + type(exc).__name__)
            continue
        ops.append(op)
        ctx.count("childop." + op)
        for anc_level in range(len(chain) - 1):
            if not check_parent(ctx, parent_obs[anc_level]["obs"], sut, monitors, classes[anc_level],
                                parent_obs[anc_level]["values"], f"{op} on leaf (ops {ops})", case):
                return
    # last of all (it is a known finding, F47, and must not mask the steps above): edit the ELEMENT of a
    # property the leaf merely inherited
    inherited = [name for name, prop in leaf.properties.items()
                 if not isinstance(prop.element, type) and len(classes) >= 2
                 and name in classes[-2].properties and classes[-2].properties[name].element is prop.element]
    if inherited and rng.random() < 0.3:
        name = rng.choice(sorted(inherited))
        leaf.properties[name].element.default = "edited-on-the-child"
        ctx.count("childop.inherited_element_edit")
        for anc_level in range(len(chain) - 1):
            if not check_parent(ctx, parent_obs[anc_level]["obs"], sut, monitors, classes[anc_level],
                                parent_obs[anc_level]["values"], f"element of inherited property {name!r} edited on leaf",
                                case, finding="F47"):
                break
    overrides = any(node["kw"] or node["props"] for node in chain[1:])
    if overrides and accepted and rejected:
        ctx.nontrivial(canon(chain))
    ctx.sample({"chain": chain}, every=40)


def run_shard(ctx):
    from vlib import fingerprint as fpm  # pylint: disable=import-outside-toplevel
    from vlib import monitors, sut  # pylint: disable=import-outside-toplevel

    rng = ctx.rng
    for idx in range(8):
        reused_property_object(ctx, sut, fpm, idx + 8 * ctx.shard)
        nested_inherited_literals(ctx, sut, idx + 8 * ctx.shard)
    for _ in range(ctx.params["families"]):
        chain = make_family(ctx, rng)
        run_family(ctx, sut, monitors, fpm, rng, chain)


def replay(case, ctx):
    from vlib import fingerprint as fpm  # pylint: disable=import-outside-toplevel
    from vlib import monitors, sut  # pylint: disable=import-outside-toplevel

    if "reused_property" in case:
        reused_property_object(ctx, sut, fpm, case["reused_property"])
        return
    if "nested_literals" in case:
        nested_inherited_literals(ctx, sut, case["nested_literals"])
        return

    run_family(ctx, sut, monitors, fpm, ctx.rng, case["chain"])
