"""C16 - format checking consults exactly the registered checker."""
import warnings

PROPERTY = "C16"
TECHNIQUE = (
    "runtime monitoring: history checker - a dict model of the process-wide format register shadows "
    "every registration, instrumented checkers log every consultation, warnings are recorded; each "
    "validation's verdict, consultation log and warnings are compared with the model. Built-ins are "
    "driven with grammar-generated canonical UUIDs and RFC 3339 timestamps"
)
RULE = (
    "history = random sequence of register(name, checker) / validate(element kind, name, value) over a "
    "pool of format names (plain, with '-', '{', '%', non-ASCII, empty) and values of every JSON type, "
    "element kinds String/Element built in the DSL and via parse_element; non-trivial = a validation "
    "that follows at least one registration or re-registration of its name, or an unregistered-name "
    "validation; distinct by (name, value, registration count, kind); plus built-in strings distinct "
    "by text"
)
ASSUMPTIONS = [
    "the format register is process-wide: each shard is a fresh process and the model persists across "
    "its histories",
    "RFC 3339 strings are generated from the ABNF of section 5.6 with field ranges (month lengths, "
    "leap years); seconds=60 and year 0000 are RFC-valid and attributed to known finding F15",
]
NAMES = ["fmt", "my-format", "a{b}", "100%", "%s", "{0}", "{format}", "é", "", "email", "UUID", "date", " x ",
         "line\nbreak", "quo'te",
         # names other vocabularies give a meaning to (OpenAPI, later drafts): here they are names like any
         # other - nothing is registered under them unless the caller does it
         "int32", "int64", "float", "double", "regex", "ipv4", "hostname", "uri", "time", "byte", "password",
         # spellings earlier drafts / other tools use for names above: distinct names, no aliasing
         "ip-address", "host-name", "uriref", "uri-reference", "date_time", "datetime", "Date-Time", "uuid4",
         "ipv6", "idn-hostname", "email ", "e-mail"]
EXTREME_NONSTRINGS = [2 ** 31, -(2 ** 31) - 1, 2 ** 63, 2 ** 64, 10 ** 400, 1e308, -0.0, 2 ** 53 + 1]
HOSTILE_FORMAT_STRINGS = ["a{4294967295}", "(" * 1200 + ")" * 1200, "[", "(?P<x>a)(?P<x>b)", "\\", "*", "a{2,1}", "(?i)" * 50]
REQUIRED_COUNTERS = [
    "register", "reregister", "validate.registered.accept", "validate.registered.reject",
    "validate.unregistered.warned", "validate.nonstring", "consultations", "builtin.uuid.accepted",
    "builtin.datetime.accepted", "kind.String", "kind.Element", "kind.parsed_typed", "kind.parsed_untyped",
    "stale_checker_silent", "early_reregistration",
]

ANCHORS = [
    "statham.schema.validation.format:_FormatString.__call__",
    "statham.schema.validation.format:_FormatString.register",
    "statham.schema.validation.string:Format._validate",
]


def plan(tier):
    if tier == "quick":
        return {"shards": 8, "histories": 400, "builtin": 4000, "timeout": 900}
    return {"shards": 16, "histories": 6000, "builtin": 120000, "timeout": 7200}


class Checker:
    """Instrumented predicate: accepts strings by a deterministic rule and logs."""

    def __init__(self, serial, log, mode):
        self.serial = serial
        self.log = log
        self.mode = mode

    def __call__(self, value):
        self.log.append((self.serial, value))
        if self.mode == "all":
            return True
        if self.mode == "none":
            return False
        if not isinstance(value, str):
            return False
        verdict = (sum(map(ord, value)) + self.serial) % 2 == 0
        # checkers in the wild answer with whatever is truthy or falsy (`re.match(...)`, a count, a string)
        if self.mode == "hash_none":
            return 1 if verdict else None
        if self.mode == "hash_str":
            return "yes" if verdict else ""
        if self.mode == "hash_list":
            return [value] if verdict else 0
        return verdict


def callable_shapes(checker):
    """The same predicate as callables of other shapes a user may register: functions whose further parameters
    have defaults (and names a registry might be tempted to fill in), a partial, a bound method, a lambda.
    Being called with anything but the one value is logged as a consultation by serial -1."""
    import functools  # pylint: disable=import-outside-toplevel

    def tampered(*extra):
        checker.log.append((-1, repr(extra)))

    def with_format(value, format="%Y-%m-%d"):  # pylint: disable=redefined-builtin
        if format != "%Y-%m-%d":
            tampered("format", format)
        return checker(value)

    def with_name(value, name=None, fmt=None, checker_=None, **kwargs):
        if name is not None or fmt is not None or checker_ is not None or kwargs:
            tampered(name, fmt, checker_, kwargs)
        return checker(value)

    def with_star(value, *args, **kwargs):
        if args or kwargs:
            tampered(args, kwargs)
        return checker(value)

    def two_arguments(flag, value):
        if flag != "bound":
            tampered(flag)
        return checker(value)

    class Holder:
        def method(self, value):
            return checker(value)

    return [with_format, with_name, with_star, functools.partial(two_arguments, "bound"), Holder().method,
            lambda value, format=None, strict=False: checker(value) if (format, strict) == (None, False)
            else tampered(format, strict)]


WRAPPED_KINDS = ["pn_plain", "pn_allof", "pn_anyof", "pn_not_not", "pn_parsed_typelist", "allof_wrapped",
                 "oneof_wrapped", "items", "property", "pattern_property", "dependency", "contains_only"]


def wrap_value(kind, value):
    """The value handed to the element for a wrapped kind (the string under test sits inside it)."""
    if kind.startswith("pn_"):
        return {value: 1}
    if kind in ("items", "contains_only"):
        return [value]
    if kind in ("property", "dependency"):
        return {"p": value}
    if kind == "pattern_property":
        return {"x_member": value}
    return value


def make_element(sut, kind, name):
    inner = sut.Element(format=name)
    if kind == "pn_plain":
        return sut.Element(propertyNames=sut.String(format=name))
    if kind == "pn_allof":
        return sut.Element(propertyNames=sut.AllOf(sut.String(), sut.Element(format=name)))
    if kind == "pn_anyof":
        return sut.Element(propertyNames=sut.AnyOf(sut.Element(format=name), sut.Nothing()))
    if kind == "pn_not_not":
        return sut.Element(propertyNames=sut.Not(sut.Not(sut.Element(format=name))))
    if kind == "pn_parsed_typelist":
        return sut.parse_direct({"propertyNames": {"type": ["string", "null"], "format": name}})
    if kind == "allof_wrapped":
        return sut.AllOf(sut.Element(), inner)
    if kind == "oneof_wrapped":
        return sut.OneOf(inner, sut.Nothing())
    if kind == "items":
        return sut.Array(inner)
    if kind == "contains_only":
        return sut.Element(contains=inner)
    if kind == "property":
        return sut.Element(properties={"p": sut.Property(inner)})
    if kind == "pattern_property":
        return sut.Element(patternProperties={"^x_": inner})
    if kind == "dependency":
        return sut.Element(dependencies={"p": sut.Element(properties={"p": sut.Property(inner)})})
    if kind == "String":
        return sut.String(format=name)
    if kind == "Element":
        return sut.Element(format=name)
    if kind == "parsed_typed":
        return sut.parse_direct({"type": "string", "format": name})
    return sut.parse_direct({"format": name})


def histories(ctx, sut):
    from statham.schema.validation.format import format_checker  # pylint: disable=import-outside-toplevel
    from vlib import gen_values as gv  # pylint: disable=import-outside-toplevel

    rng = ctx.rng
    model = {}  # name -> current Checker
    stale = {}  # name -> list of replaced Checkers
    regcount = {}
    log = []
    serial = 0
    for hist in range(ctx.params["histories"]):
        steps = rng.randint(3, 25)
        trace = []
        for _ in range(steps):
            name = rng.choice(NAMES)
            if rng.random() < 0.15:
                # a name nobody registered yet (the register only ever grows)
                name = rng.choice(NAMES) + f"#{hist}.{len(trace)}"
            if rng.random() < 0.3:
                serial += 1
                checker = Checker(serial, log, rng.choice(["hash", "hash", "all", "none", "hash_none", "hash_str", "hash_list"]))
                registered = checker
                if rng.random() < 0.3:
                    registered = rng.choice(callable_shapes(checker))
                    ctx.count("register.other_callable_shape")
                format_checker.register(name)(registered)
                if name in model:
                    stale.setdefault(name, []).append(model[name])
                    ctx.count("reregister")
                model[name] = checker
                regcount[name] = regcount.get(name, 0) + 1
                ctx.count("register")
                trace.append(["register", name, checker.mode, serial])
                continue
            kind = rng.choice(["String", "Element", "parsed_typed", "parsed_untyped"])
            if rng.random() < 0.3:
                kind = rng.choice(WRAPPED_KINDS)
            roll = rng.random()
            if roll < 0.6:
                value = gv.random_string(rng)
            elif roll < 0.66:
                # long strings: whatever a checker says about them is what counts
                value = gv.random_string(rng) * rng.choice([700, 5000]) + "x" * rng.choice([0, 4097, 70000])
                ctx.count("validate.long_string")
            elif roll < 0.8:
                value = gv.random_value(rng, 1)
            elif roll < 0.9:
                value = rng.choice(EXTREME_NONSTRINGS)
            else:
                value = rng.choice(HOSTILE_FORMAT_STRINGS)
            if kind.startswith("pn_") and not isinstance(value, str):
                value = gv.random_string(rng)
            element = make_element(sut, kind, name)
            inner_value = value
            if kind in WRAPPED_KINDS:
                value = wrap_value(kind, inner_value)
                if isinstance(value, (dict, list)) and rng.random() < 0.2:
                    # the same JSON value as an untyped element hands it back (dict / list subclasses)
                    try:
                        value = sut.Element()(value)
                        ctx.count("validate.value_relayed_through_untyped_element")
                    except Exception:  # pylint: disable=broad-except
                        pass
            elif kind in ("String", "Element") and isinstance(value, str) and rng.random() < 0.15:
                # the schema declares a default, and the value passed explicitly happens to equal it: it is a
                # value like any other
                element = (sut.String if kind == "String" else sut.Element)(format=name, default=value)
                ctx.count("validate.value_equal_to_declared_default")
            del log[:]
            with warnings.catch_warnings(record=True) as caught:
                warnings.simplefilter("always")
                try:
                    element(value)
                    outcome, exc = "ok", None
                    value = inner_value
                except BaseException as err:  # pylint: disable=broad-except
                    if isinstance(err, (KeyboardInterrupt, SystemExit)):
                        raise
                    outcome, exc = sut.outcome_class(err), err
                    value = inner_value
            consulted = list(log)
            ctx.evaluation()
            ctx.count("kind." + kind)
            ctx.count("consultations", len(consulted))
            trace.append(["validate", kind, name, value, outcome])
            case = {"trace": trace[-12:], "name": name, "value": value, "kind": kind}
            ctx.nontrivial(repr((name, value, regcount.get(name, 0), kind)))
            typed = kind in ("String", "parsed_typed")
            problems = []
            if outcome not in ("ok", "ValidationError"):
                problems.append(f"unexpected outcome {outcome}: {exc!r}")
            if not isinstance(value, str):
                ctx.count("validate.nonstring")
                if consulted:
                    problems.append("a checker was consulted for a value that is not a string")
                if typed:
                    if outcome == "ok":
                        problems.append("String element accepted a non-string")
                elif outcome != "ok":
                    problems.append("a non-string was rejected by an element whose only keyword is format")
                if any(issubclass(w.category, RuntimeWarning) for w in caught):
                    ctx.count("diagnostic.warning_for_nonstring")
            elif name in model:
                current = model[name]
                want = Checker(current.serial, [], current.mode)(value)
                if any(ser != current.serial for ser, _ in consulted):
                    problems.append(
                        f"an earlier checker was consulted after re-registration: {consulted}")
                elif stale.get(name):
                    ctx.count("stale_checker_silent")
                if not any(ser == current.serial and val == value for ser, val in consulted):
                    problems.append("the registered checker was not consulted with the value")
                if want and outcome != "ok":
                    problems.append("rejected although the current checker returned true")
                if not want and outcome == "ok":
                    problems.append("accepted although the current checker returned false")
                ctx.count("validate.registered.accept" if outcome == "ok" else "validate.registered.reject")
            elif name in ("uuid", "date-time"):
                ctx.count("validate.builtin_name_skipped")
            else:
                if outcome != "ok":
                    problems.append("a string was rejected on account of an unregistered format")
                if consulted:
                    problems.append("a checker was consulted for an unregistered format")
                relevant = [w for w in caught if issubclass(w.category, Warning)]
                if not relevant:
                    problems.append("no warning for an unregistered format name")
                else:
                    ctx.count("validate.unregistered.warned")
            if problems:
                ctx.witness("register_semantics", case, "; ".join(problems))
        if hist % 50 == 0:
            ctx.sample({"history": trace[:10]})


HEX = "0123456789abcdefABCDEF"


def gen_uuid(rng):
    return "-".join("".join(rng.choice(HEX) for _ in range(n)) for n in (8, 4, 4, 4, 12))


def gen_rfc3339(rng):
    """A timestamp from RFC 3339 section 5.6's grammar with valid field ranges."""
    prod = []
    roll = rng.random()
    if roll < 0.08:
        year = 0
        prod.append("year0000")
    elif roll < 0.2:
        year = rng.choice([1, 99, 100, 999, 1000, 1582, 1900, 1969, 1970, 2000, 2038, 2100, 9999])
    else:
        year = rng.randint(1, 9999)
    month = rng.randint(1, 12)
    leap = year % 4 == 0 and (year % 100 != 0 or year % 400 == 0)
    mdays = [31, 29 if leap else 28, 31, 30, 31, 30, 31, 31, 30, 31, 30, 31][month - 1]
    day = rng.choice([1, mdays, rng.randint(1, mdays)])
    if month == 2 and day == 29:
        prod.append("feb29")
    hour = rng.choice([0, 23, rng.randint(0, 23)])
    minute = rng.choice([0, 59, rng.randint(0, 59)])
    second = rng.choice([0, 59, rng.randint(0, 59)])
    if rng.random() < 0.06:
        # leap second: RFC 3339 allows :60 at the end of a month (23:59:60Z)
        hour, minute, second = 23, 59, 60
        day = mdays
        prod.append("second60")
    text = f"{year:04d}-{month:02d}-{day:02d}"
    text += rng.choice(["T", "T", "T", "t"])
    text += f"{hour:02d}:{minute:02d}:{second:02d}"
    if rng.random() < 0.5:
        digits = rng.choice([1, 2, 3, 6, 6, 7, 9, 12])
        text += "." + "".join(rng.choice("0123456789") for _ in range(digits))
        prod.append(f"frac{digits}")
    roll = rng.random()
    if roll < 0.4:
        text += rng.choice(["Z", "Z", "z"])
        prod.append("zulu")
        if second == 60:
            pass
    else:
        off_h = rng.choice([0, 1, 5, 12, 14, 23, rng.randint(0, 23)])
        off_m = rng.choice([0, 30, 45, 59, rng.randint(0, 59)])
        text += rng.choice("+-") + f"{off_h:02d}:{off_m:02d}"
        prod.append("offset")
    if "t" in text or "z" in text:
        prod.append("lowercase")
    return text, prod


def builtins(ctx, sut, skip=None):
    rng = ctx.rng
    elements = {
        "uuid": [sut.String(format="uuid"), sut.Element(format="uuid"),
                 sut.parse_direct({"type": "string", "format": "uuid"})],
        "date-time": [sut.String(format="date-time"), sut.Element(format="date-time"),
                      sut.parse_direct({"type": ["string", "null"], "format": "date-time"})],
    }
    for idx in range(ctx.params["builtin"]):
        if idx % 3 == 0:
            text, prod, fmt = gen_uuid(rng), ["uuid"], "uuid"
        else:
            text, prod = gen_rfc3339(rng)
            fmt = "date-time"
        if fmt == skip:
            continue  # this built-in was replaced by the harness in this process
        element = elements[fmt][idx % len(elements[fmt])]
        ctx.evaluation()
        ctx.nontrivial("b:" + text)
        for name in prod:
            ctx.count("prod." + name)
        with warnings.catch_warnings():
            warnings.simplefilter("ignore")
            try:
                element(text)
                outcome, exc = "ok", None
            except BaseException as err:  # pylint: disable=broad-except
                if isinstance(err, (KeyboardInterrupt, SystemExit)):
                    raise
                outcome, exc = sut.outcome_class(err), err
        if outcome == "ok":
            ctx.count("builtin.uuid.accepted" if fmt == "uuid" else "builtin.datetime.accepted")
            continue
        finding = None
        if fmt == "date-time" and outcome == "ValidationError" and (
            "second60" in prod or "year0000" in prod
        ):
            finding = "F15"
        ctx.witness(
            "builtin_rejects_canonical", {"format": fmt, "text": text, "productions": prod},
            f"built-in {fmt} checker: {outcome} {exc!r}"[:300], finding=finding,
        )
    # non-strings are never rejected on account of a built-in format
    for value in (None, 1, 1.5, True, [], {}, ["2020-01-01T00:00:00Z"]):
        for fmt in ("uuid", "date-time"):
            if fmt == skip:
                continue
            outcome = sut.call(sut.Element(format=fmt), value)[0]
            ctx.evaluation()
            if outcome != "ok":
                ctx.witness("builtin_rejects_nonstring", {"format": fmt, "value": value}, outcome)


def early_reregistration(ctx, sut):
    """Odd shards: BEFORE the first format validation of this fresh process a built-in name is registered
    again; the replacement must be the checker that is consulted from the very first validation on."""
    from statham.schema.validation.format import format_checker  # pylint: disable=import-outside-toplevel

    log = []
    replaced = "uuid" if ctx.shard % 4 == 1 else "date-time"
    checker = Checker(900000 + ctx.shard, log, "hash")
    format_checker.register(replaced)(checker)
    ctx.count("early_reregistration")
    for value in ["ab", "abc", "123e4567-e89b-12d3-a456-426614174000", "1990-12-31T23:59:59Z", "", "zz"]:
        for element in (sut.String(format=replaced), sut.Element(format=replaced)):
            del log[:]
            outcome = sut.call(element, value)[0]
            ctx.evaluation()
            want = Checker(checker.serial, [], "hash")(value)
            problems = []
            if not any(ser == checker.serial and val == value for ser, val in log):
                problems.append("the re-registered checker was not consulted")
            if want != (outcome == "ok"):
                problems.append(f"verdict {outcome} but the registered checker returns {want}")
            if problems:
                ctx.witness("register_semantics", {"trace": [["register", replaced, "hash", checker.serial],
                                                             ["validate", "String", replaced, value, outcome]],
                                                   "name": replaced, "value": value, "kind": "early"},
                            f"{replaced!r} re-registered before the first validation of the process: "
                            + "; ".join(problems))
                return replaced
    return replaced


def run_shard(ctx):
    from vlib import sut  # pylint: disable=import-outside-toplevel

    replaced = early_reregistration(ctx, sut) if ctx.shard % 2 else None
    builtins(ctx, sut, skip=replaced)  # before histories (which may re-register anything but not these names)
    histories(ctx, sut)


def replay(case, ctx):
    from vlib import sut  # pylint: disable=import-outside-toplevel

    if "text" in case:
        element = sut.String(format=case["format"])
        outcome, _res, exc = sut.call(element, case["text"])
        ctx.evaluation()
        if outcome != "ok":
            prod = case.get("productions", [])
            ctx.witness("builtin_rejects_canonical", case, f"{outcome} {exc!r}",
                        finding="F15" if ("second60" in prod or "year0000" in prod) else None)
        return
    from statham.schema.validation.format import format_checker  # pylint: disable=import-outside-toplevel

    log = []
    checkers = {}
    for step in case["trace"]:
        if step[0] == "register":
            _op, name, mode, serial = step
            checkers[name] = Checker(serial, log, mode)
            format_checker.register(name)(checkers[name])
        else:
            _op, kind, name, value, recorded = step
            del log[:]
            with warnings.catch_warnings(record=True) as caught:
                warnings.simplefilter("always")
                outcome = sut.call(make_element(sut, kind, name), value)[0]
            ctx.evaluation()
            if outcome != recorded:
                ctx.count("replay.outcome_differs")
            if isinstance(value, str) and name in checkers:
                want = Checker(checkers[name].serial, [], checkers[name].mode)(value)
                if want != (outcome == "ok"):
                    ctx.witness("register_semantics", case, f"verdict {outcome} but checker says {want}")
            elif isinstance(value, str) and name not in ("uuid", "date-time") and name not in checkers:
                # the replay trace is truncated: earlier registrations are unknown
                _ = caught
