"""C03 - JSON Schema serialization preserves the meaning of any element tree."""
import copy
import json

from vlib import gen_dsl
from vlib import gen_schemas as gs
from vlib import gen_values as gv
from vlib import refmodel
from vlib.runner import canon

PROPERTY = "C03"
NEEDS_JSONSCHEMA = True
TECHNIQUE = (
    "runtime monitoring: the document returned by serialize_json is observed by four monitors - "
    "json.dumps, Draft-6 metaschema validity (reference model + jsonschema.check_schema), JSON-pointer "
    "resolution of every $ref inside the document, and a differential oracle: the real verdict of the "
    "element tree vs the reference model's verdict on the serialized document, over a value batch"
)
RULE = (
    "tree = parser image of a generated schema, or DSL tree (renamed properties, explicit required, "
    "inherited and shared classes) x definitions drawn from {none, sub-elements picked inside the tree, "
    "equal-but-distinct copies, unrelated elements} x one or several elements; non-trivial = tree with "
    ">= 3 nodes; distinct by (spec or schema, definitions choice)"
)
ASSUMPTIONS = [
    "acyclic trees only; the required-with-default waiver is read the same way on both sides (either "
    "verdict accepted when it decides)",
    "definitions keys never equal class names of the tree (the caller chooses the keys)",
    "F08 (dangling $ref to the primary class when several elements are passed, or to classes reachable "
    "only through definitions=) and F09 (Nothing() as root) are attributed by their structural triggers",
]
REQUIRED_COUNTERS = [
    "trees.dsl", "trees.parsed", "docs.serialized", "refs.resolved", "metaschema.valid", "verdicts.compared",
    "verdicts.accept", "verdicts.reject", "definitions.substituted", "definitions.from_inside",
    "definitions.equal_copy", "definitions.near_miss_twin", "definitions.unrelated", "shape.renamed_property", "shape.explicit_required",
    "shape.inherited_class", "shape.shared_node", "multi_element", "jsonschema.check_schema_ok",
    "multi_element.refers_to_primary", "definitions.holding_class", "reserialized.same_tree_other_arguments",
]

ANCHORS = [
    "statham.serializers.json:serialize_json",
    "statham.serializers.json:_serialize_element",
    "statham.serializers.json:_serialize_recursive",
    "statham.serializers.json:_from_definitions",
    "statham.serializers.orderer:get_object_classes",
    "statham.serializers.orderer:get_children",
]


def plan(tier):
    if tier == "quick":
        return {"shards": 16, "trees": 200, "values": 8, "timeout": 900, "mirror": True}
    return {"shards": 16, "trees": 12000, "values": 10, "timeout": 7200, "mirror": True}


def collect_refs(node, out=None):
    out = [] if out is None else out
    for schema in refmodel.walk_schemas(node):
        if isinstance(schema.get("$ref"), str):
            out.append(schema["$ref"])
    return out


def pick_inside(rng, sut, element):
    """Non-class sub-elements of the tree (candidates for definitions)."""
    try:
        children = [c for c in sut.get_children(element) if not isinstance(c, type)]
    except Exception:  # pylint: disable=broad-except
        return []
    uniq = list({id(c): c for c in children}.values())
    rng.shuffle(uniq)
    return uniq[:2]


def degenerate_enums_only(doc):
    """F42 predicate: the document holds an `enum` that is empty or repeats a member (the DSL accepts both,
    the metaschema neither) and is a valid schema once those enums are replaced."""
    changed = [0]

    def repair(node):
        if isinstance(node, dict):
            out = {}
            for key, val in node.items():
                if key == "enum" and isinstance(val, list) and (
                        not val or any(refmodel.json_eq(a, b) for i, a in enumerate(val) for b in val[:i])):
                    out[key] = [None]
                    changed[0] += 1
                else:
                    out[key] = repair(val)
            return out
        if isinstance(node, list):
            return [repair(val) for val in node]
        return node

    repaired = repair(doc)
    try:
        return bool(changed[0]) and refmodel.metaschema_valid(repaired)
    except Exception:  # pylint: disable=broad-except
        return False


NOT_THERE = object()


def def_key(rng, k):
    """Key of a caller-supplied definition: the caller's choice, any string (a reference to it is a JSON
    pointer, in which `/` and `~` are escaped, written as a URI fragment, in which `%` is)."""
    return rng.choice([f"def{k}", f"def{k}", f"path/to{k}", f"til~de{k}", f"~1odd{k}", f"with space{k}", f"é{k}",
                       f"a%25b{k}", f"50%2Foff{k}", f"%7E{k}%"])


def check_tree(ctx, sut, element, extra_elements, definitions, model_schema, values, case, f08, f09):
    ctx.evaluation()
    try:
        doc = sut.serialize_json(element, *extra_elements, definitions=definitions or None)
    except Exception as exc:  # pylint: disable=broad-except
        ctx.witness("serialize_raised", case, f"{type(exc).__name__}: {exc!r}"[:400],
                    finding="F09" if f09 else None)
        return
    ctx.count("docs.serialized")
    try:
        text = json.dumps(doc)
        ctx.doc_texts.append(text)
        doc = json.loads(text)
    except (TypeError, ValueError) as exc:
        ctx.witness("not_json_serializable", case, f"{type(exc).__name__}: {exc!r}"[:300])
        return
    if not isinstance(doc, (dict, bool)):
        ctx.witness("not_a_schema", case, f"serialize_json returned {type(doc).__name__}")
        return
    try:
        meta_ok = refmodel.metaschema_valid(doc)
    except Exception as exc:  # pylint: disable=broad-except
        meta_ok = False
        ctx.count("metaschema.model_error." + type(exc).__name__)
    if not meta_ok:
        # F42: `enum=[]` (nothing is accepted) is written as "enum": [], which Draft 6 does not allow
        ctx.witness("not_metaschema_valid", case, f"document is not a valid Draft-6 schema: {text[:400]}",
                    finding="F42" if degenerate_enums_only(json.loads(text)) else None)
        return
    ctx.count("metaschema.valid")
    try:
        import jsonschema  # pylint: disable=import-outside-toplevel

        jsonschema.Draft6Validator.check_schema(doc)
        ctx.count("jsonschema.check_schema_ok")
    except ImportError:
        pass
    except Exception as exc:  # pylint: disable=broad-except
        ctx.witness("not_metaschema_valid", case, f"jsonschema.check_schema: {exc!r}"[:300])
        return
    for ref in collect_refs(doc):
        try:
            refmodel.resolve_pointer(doc, ref)
            ctx.count("refs.resolved")
        except Exception:  # pylint: disable=broad-except
            ctx.witness("dangling_ref", case, f"$ref {ref!r} does not resolve inside the document: {text[:300]}",
                        finding="F08" if f08 else None)
            return
    if definitions and any(ref.split("/")[-1].replace("~1", "/").replace("~0", "~") in definitions for ref in collect_refs(
            {k: v for k, v in doc.items() if k != "definitions"} if isinstance(doc, dict) else {})):
        ctx.count("definitions.substituted")
    # every definition the caller supplied still means what the supplied element means, under the caller's key
    for key, supplied in (definitions or {}).items():
        entry = doc.get("definitions", {}).get(key, NOT_THERE) if isinstance(doc, dict) else NOT_THERE
        if entry is NOT_THERE:
            ctx.witness("definition_missing", case, f"the caller's definition {key!r} is not in the document: {text[:300]}",
                        finding="F08" if f08 else None)
            return
        for value in [{}, {"a": 1, "zz": "x"}, 1, "x", None, [1]] + list(values[:3]):
            outcome = sut.call(supplied, copy.deepcopy(value))[0]
            if outcome not in ("ok", "ValidationError", "TypeError"):
                continue
            try:
                allowed = refmodel.verdicts(entry, value, doc, curated=gv.CURATED)
            except RecursionError:
                ctx.witness("definition_unresolvable", case,
                            f"the caller's definition {key!r} runs into a reference cycle: {json.dumps(entry)[:200]}")
                return
            except Exception as exc:  # pylint: disable=broad-except
                ctx.count("model_error." + type(exc).__name__)
                continue
            ctx.count("definitions.meaning_compared")
            if sut.accepted(outcome) not in allowed:
                ctx.witness("definition_meaning_changed", {**case, "value": value},
                            f"supplied element -> {outcome}, definitions[{key!r}] -> {sorted(allowed)}: "
                            f"{json.dumps(entry)[:300]}")
                return
    for value in values:
        outcome = sut.call(element, copy.deepcopy(value))[0]
        if outcome not in ("ok", "ValidationError", "TypeError"):
            continue
        ctx.count("verdicts.compared")
        ctx.count("verdicts.accept" if outcome == "ok" else "verdicts.reject")
        try:
            allowed = refmodel.verdicts(doc, value, doc, curated=gv.CURATED)
        except Exception as exc:  # pylint: disable=broad-except
            ctx.count("model_error." + type(exc).__name__)
            continue
        if sut.accepted(outcome) not in allowed:
            src = ""
            if model_schema is not None:
                try:
                    src = f"; source schema says {sorted(refmodel.verdicts(model_schema, value, model_schema, curated=gv.CURATED))}"
                except Exception:  # pylint: disable=broad-except
                    src = ""
            ctx.witness("meaning_changed", {**case, "value": value},
                        f"element -> {outcome}, serialized document -> {sorted(allowed)}{src}; doc={text[:500]}",
                        finding="F08" if f08 and "definitions" in text and False else None)
            return


def run_shard(ctx):
    from vlib import sut  # pylint: disable=import-outside-toplevel

    import random as _random  # pylint: disable=import-outside-toplevel

    # every case is a function of its own seed only, so the mirror shard can take the cases in reverse
    seeds = [ctx.gen_rng.getrandbits(48) for _ in range(ctx.params["trees"])]
    for idx, case_seed in ctx.ordered(seeds):
        rng = _random.Random(case_seed)
        ctx.case_rng = rng
        extra, definitions, f08 = [], {}, False
        if idx % 3 == 0:
            schema, _tag = gs.any_schema(rng, gs.Opts(lookalike_literals=False))
            if isinstance(schema, dict) and idx % 12 == 3 and "$ref" not in json.dumps(schema) and \
                    gs.add_vacuous(rng, schema, count=rng.randint(1, 3)):
                ctx.count("trees.parsed_with_vacuous_keywords")
            if not isinstance(schema, dict) or not refmodel.metaschema_valid(schema):
                continue
            try:
                element = sut.parse_direct(schema)
            except Exception as exc:  # pylint: disable=broad-except
                ctx.count("parse_failed." + type(exc).__name__)
                continue
            ctx.count("trees.parsed")
            model_schema = schema
            case = {"schema": schema}
            nodes = gs.size_of(schema)[0]
            spec = None
        else:
            gen = gen_dsl.Gen(rng, renames=0.5, explicit_required=0.5, inheritance=0.35, share=0.2,
                              formats=True, lookalike_literals=False)
            spec = gen.klass(gen.max_depth) if idx % 2 else gen.spec()
            if spec["t"] == "ref":
                continue
            if idx % 20 == 11:
                # class names are the caller's choice in the DSL (`Object.inline("a/b", ...)`): the reference to
                # such a class is a JSON pointer like any other
                for node in gen_dsl.class_specs(spec):
                    if node.get("t") == "Object" and "/" not in node.get("name", ""):
                        node["name"] = node["name"] + rng.choice(["/v1", "~x", "/a~b"])
                ctx.count("shape.class_name_needs_escaping")
            if idx % 40 == 7 and isinstance(spec.get("kw"), dict):
                # constructible through the DSL, not writable in a schema document: the empty enum
                spec["kw"].pop("const", None)
                spec["kw"]["enum"] = rng.choice([[], ["a", "a"], [1, 1.0, 2]])
                ctx.count("shape.empty_enum")
            near_miss = None
            if idx % 7 == 3 and spec["t"] == "Object":
                # the tree holds an element whose literals are booleans; the caller's definitions hold its
                # 0/1 twin (equal as Python dicts once serialized, NOT equal as elements or as JSON): the
                # element must stay itself
                literal_kw, twin_kw = rng.choice([
                    ({"enum": [False, True]}, {"enum": [0, 1]}), ({"const": True}, {"const": 1}),
                    ({"default": False}, {"default": 0}), ({"enum": [[True]], "default": [True]}, {"enum": [[1]], "default": [1]}),
                    ({"const": {"on": False}}, {"const": {"on": 0}})])
                spec["props"]["nm"] = {"el": {"t": "Element", "kw": copy.deepcopy(literal_kw)}, "required": False,
                                       "source": None}
                near_miss = {"t": "Element", "kw": copy.deepcopy(twin_kw)}
            try:
                element = gen_dsl.build(spec)
            except Exception as exc:  # pylint: disable=broad-except
                ctx.count("build_failed." + type(exc).__name__)
                continue
            ctx.count("trees.dsl")
            for shape in gen_dsl.shapes(spec):
                ctx.count("shape." + shape)
            model_schema = gen_dsl.to_schema(spec)
            case = {"spec": spec}
            nodes = gen_dsl.count_nodes(spec)
        f09 = isinstance(element, sut.Nothing)
        mode = rng.choice(["none", "none", "inside", "inside", "copy", "unrelated", "multi", "multi_ref",
                           "def_class"])
        if spec is not None and locals().get("near_miss"):
            mode = "near_miss"
            definitions[def_key(rng, 0)] = gen_dsl.build(near_miss)
            ctx.count("definitions.near_miss_twin")
        elif mode == "inside":
            for k, sub in enumerate(pick_inside(rng, sut, element)):
                definitions[def_key(rng, k)] = sub
            if definitions:
                ctx.count("definitions.from_inside")
        elif mode == "copy" and spec is not None:
            # an equal but distinct copy of a sub-tree
            twin = gen_dsl.build(spec)
            for k, sub in enumerate(pick_inside(rng, sut, twin)):
                definitions[def_key(rng, k)] = sub
            if definitions:
                ctx.count("definitions.equal_copy")
        elif mode == "unrelated":
            other = gen_dsl.Gen(rng, max_depth=1, classes=False, share=0.0).spec(1)
            if other["t"] != "ref":
                definitions[def_key(rng, 0)] = gen_dsl.build(other)
                ctx.count("definitions.unrelated")
        elif mode == "multi":
            other_gen = gen_dsl.Gen(rng, max_depth=2, share=0.0)
            other_gen.class_count = 50  # distinct class names
            other = other_gen.klass(2)
            try:
                extra = [gen_dsl.build(other)]
                ctx.count("multi_element")
            except Exception:  # pylint: disable=broad-except
                extra = []
        elif mode == "multi_ref" and isinstance(element, type):
            # a second element whose class refers back to the primary class
            from statham.schema.elements.meta import ObjectClassDict  # pylint: disable=import-outside-toplevel

            classdict = ObjectClassDict()
            classdict["back"] = sut.Property(rng.choice([element, sut.Array(element)]))
            extra = [sut.ObjectMeta("RefersBack", (sut.Object,), classdict)]
            ctx.count("multi_element")
            ctx.count("multi_element.refers_to_primary")
        elif mode == "def_class":
            other_gen = gen_dsl.Gen(rng, max_depth=1, share=0.0)
            other_gen.class_count = 80
            other = gen_dsl.build(other_gen.klass(1))
            held = rng.choice([other, other, sut.Array(other), sut.AnyOf(other, sut.String())])
            if held is other and rng.random() < 0.6:
                # the obvious key for a class is its own name
                definitions[other.__name__] = held
                ctx.count("definitions.class_under_its_own_name")
            else:
                definitions[def_key(rng, 0)] = held
            if rng.random() < 0.4:
                inner = [cls for cls in sut.get_object_classes(element) if cls is not element]
                if inner:
                    chosen = rng.choice(inner)
                    definitions[chosen.__name__] = chosen
                    ctx.count("definitions.inner_class_under_its_own_name")
            ctx.count("definitions.holding_class")
        case["definitions_mode"] = mode
        # F08 structural trigger: classes reachable only through definitions=
        def_classes = []
        for sub in definitions.values():
            try:
                def_classes += [c for c in [sub] + list(sut.get_children(sub)) if isinstance(c, type)]
            except Exception:  # pylint: disable=broad-except
                pass
        tree_classes = {id(c) for c in sut.get_object_classes(element, *extra)}
        if any(id(c) not in tree_classes for c in def_classes):
            f08 = True
        if extra and isinstance(element, type):
            try:
                if any(c is element for e in extra for c in sut.get_children(e)):
                    f08 = True
            except Exception:  # pylint: disable=broad-except
                pass
        values = gv.batch_for_schema(rng, model_schema, model_schema, count=ctx.params["values"],
                                     lookalikes=False) if isinstance(model_schema, dict) else \
            [gv.random_value(rng) for _ in range(4)]
        if nodes >= 3:
            ctx.nontrivial(canon([case.get("spec") or case.get("schema"), mode, sorted(definitions)]))
        ctx.doc_texts = []
        check_tree(ctx, sut, element, extra, definitions, model_schema, values, case, f08, f09)
        # the same tree again in the same process with other definitions / in another role: every
        # document must stand on its own (nothing may survive from the previous serialization)
        if idx % 2 == 0:
            ctx.count("reserialized.same_tree_other_arguments")
            again = dict(case, definitions_mode=mode + "->none", reserialized=True)
            check_tree(ctx, sut, element, [], {}, model_schema, values[:4], again, False, f09)
            if isinstance(element, type):
                wrapper = sut.Array(element)
                wrapped_values = [[copy.deepcopy(v)] for v in values[:3]] + [[], [1]]
                check_tree(ctx, sut, wrapper, [], {"def9": sut.String(format="uuid")}, None, wrapped_values,
                           dict(case, definitions_mode="wrapped_in_array", reserialized=True), False, False)
                check_tree(ctx, sut, element, extra, definitions, model_schema, values[:4],
                           dict(case, definitions_mode=mode + "->again", reserialized=True), f08, f09)
        ctx.digest(idx, ctx.doc_texts)
        ctx.sample({k: v for k, v in case.items()}, every=70)


def replay(case, ctx):
    from vlib import sut  # pylint: disable=import-outside-toplevel

    if "spec" in case:
        element = gen_dsl.build(case["spec"])
        model = gen_dsl.to_schema(case["spec"])
    else:
        element = sut.parse_direct(case["schema"])
        model = case["schema"]
    values = [case["value"]] if "value" in case else []
    ctx.doc_texts = []
    definitions = {}
    if case.get("definitions_mode") == "inside":
        for k, sub in enumerate([c for c in sut.get_children(element) if not isinstance(c, type)][:4]):
            definitions[def_key(ctx.rng, k)] = sub
    check_tree(ctx, sut, element, [], definitions, model, values,
               {k: v for k, v in case.items() if k != "value"}, False, isinstance(element, sut.Nothing))
