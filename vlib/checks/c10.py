"""C10 - only validation / schema-parse errors escape; no crash on any JSON input."""
import copy
import json
import os

from vlib import gen_schemas as gs
from vlib import gen_values as gv
from vlib import refmodel
from vlib.runner import canon

PROPERTY = "C10"
TECHNIQUE = (
    "runtime monitoring: escape monitor (exception class leaving each boundary call) under a hostile "
    "workload routed into every arithmetic / lookup / regex / format site, directly and below "
    "composition and not; parser driven with metaschema-valid schemas carrying extreme keyword values"
)
RULE = (
    "case = (site schema or generated schema with hostile literals, hostile value): |ints| to 10^400, "
    "floats at the edges of the double range, 2^53+-1, nesting to depth 60 judged (deeper only tallied), "
    "NUL / lone surrogates / astral / bidi strings, 10^5-char strings, date-like digit strings; every "
    "call is non-trivial except plain scalars against an empty schema; distinct by canonical (schema, value)"
)
ASSUMPTIONS = [
"\"every call terminates\" is judged in logical steps for the one shape where work can multiply (models whose defaults hold models): constructor entries per call against a linear budget, counted with sys.monitoring",
        "RecursionError is judged only for nesting depth <= 60 (well inside the default budget of 1000 "
    "frames); deeper inputs are tallied as out-of-domain",
    "the schema-parse family is SchemaParseError and its subclasses",
    "a call terminates = returns within the shard watchdog; a watchdog firing is inconclusive",
]
SITES = [
    "object_subschema", "multipleOf_float", "multipleOf_int", "number", "integer", "bounds", "uniqueItems", "format_datetime",
    "format_uuid", "format_other", "pattern", "propertyNames", "const_enum", "model_keys", "items_deep", "properties_deep",
    "composition_wrapped", "not_wrapped", "dependencies", "contains", "minmax_lengths",
]
REQUIRED_COUNTERS = (
    ["outcome.ok", "outcome.ValidationError", "parse.ok", "parse.hostile_schemas", "depth.judged", "parse.raw_hostile_titles", "parse.beyond_recursion_budget",
     "value.huge_int", "value.int_beyond_str_limit", "schema.int_beyond_str_limit", "huge.outcome.ValidationError", "value.extreme_float", "value.surrogate", "value.nul", "value.long_string",
     "work.calls_measured", "parse.deep_schema_beyond_100"]
    + [f"site.{s}" for s in SITES]
)

ANCHORS = [
    "statham.schema.validation.base:Validator.__call__",
    "statham.schema.validation.numeric:MultipleOf._validate",
    "statham.schema.validation.array:UniqueItems._validate",
    "statham.schema.elements.composition:_attempt_schema",
    "statham.schema.elements.composition:Not.construct",
    "statham.schema.parser:parse_element",
    "statham.schema.elements.numeric:Number.construct",
    "statham.schema.validation.format:_FormatString.__call__",
]


def plan(tier):
    if tier == "quick":
        return {"shards": 16, "site_calls": 1500, "schemas": 120, "values": 8, "timeout": 900}
    return {"shards": 16, "site_calls": 120000, "schemas": 9000, "values": 10, "timeout": 7200}


def classify_value(ctx, value, depth=0):
    if isinstance(value, bool) or value is None:
        return
    if isinstance(value, int):
        if abs(value) >= 2 ** 1023:
            ctx.count("value.huge_int")
        return
    if isinstance(value, float):
        if abs(value) > 1e300 or (value != 0 and abs(value) < 1e-300):
            ctx.count("value.extreme_float")
        return
    if isinstance(value, str):
        if "\x00" in value:
            ctx.count("value.nul")
        if any(0xD800 <= ord(ch) <= 0xDFFF for ch in value[:50]):
            ctx.count("value.surrogate")
        if len(value) >= 1000:
            ctx.count("value.long_string")
        return
    if depth > 3:
        return
    if isinstance(value, list):
        for member in value[:5]:
            classify_value(ctx, member, depth + 1)
    elif isinstance(value, dict):
        for key, member in list(value.items())[:5]:
            classify_value(ctx, key, depth + 1)
            classify_value(ctx, member, depth + 1)


def site_schema(rng, site):
    """A schema that routes the value into one site (possibly wrapped)."""
    if site == "object_subschema":
        # a model class (typed object) as the sub-schema of the keywords that call sub-schemas themselves
        cls = {"type": "object", "title": "Sub", "required": ["id"], "properties": {"id": {"type": "integer"}},
               "additionalProperties": rng.choice([True, False])}
        return rng.choice([
            {"contains": cls}, {"propertyNames": cls}, {"dependencies": {"a": cls}}, {"not": cls},
            {"items": cls}, {"additionalProperties": cls}, {"patternProperties": {"^a": cls}},
            {"items": [cls], "additionalItems": cls},
        ])
    if site == "multipleOf_float":
        return {"multipleOf": rng.choice([0.5, 0.1, 1e-320, 5e-324, 1e308, 0.01, 2.5, 1.0, 3.3, 1e-5])}
    if site == "multipleOf_int":
        return {"multipleOf": rng.choice([1, 2, 3, 7, 10 ** 30, 2 ** 64, 10 ** 400])}
    if site == "number":
        return {"type": rng.choice(["number", ["number", "string"]])}
    if site == "integer":
        return {"type": "integer", "multipleOf": rng.choice([1, 2, 0.5])}
    if site == "bounds":
        key = rng.choice(["minimum", "maximum", "exclusiveMinimum", "exclusiveMaximum"])
        return {key: rng.choice([0, 1.5, 10 ** 400, -(10 ** 400), 1.7976931348623157e308, 5e-324, 2 ** 53 + 1])}
    if site == "uniqueItems":
        return {"uniqueItems": True, "type": rng.choice(["array", ["array", "null"]])}
    if site == "format_other":
        # names the library registers nothing under today (and strings built to upset whatever might be)
        return {"format": rng.choice(["regex", "int32", "int64", "email", "ipv4", "uri", "hostname", "time", "date",
                                      "json-pointer", "uri-template", "idn-email"])}
    if site == "format_datetime":
        return {"format": "date-time", "type": rng.choice(["string", ["string", "null"]])}
    if site == "format_uuid":
        return {"format": "uuid"}
    if site == "pattern":
        return {"pattern": rng.choice(sorted(gv.PATTERNS))}
    if site == "propertyNames":
        return {"propertyNames": {"pattern": rng.choice(sorted(gv.PATTERNS)), "maxLength": 5}}
    if site == "const_enum":
        lit = gv.hostile_value(rng, 1)
        try:
            json.dumps(lit)
        except (ValueError, TypeError):
            lit = "x"
        return rng.choice([{"const": lit}, {"enum": [lit, 1]}])
    if site == "model_keys":
        out = {"type": "object", "title": "Host", "properties": {"a": {"type": "string"}},
               "additionalProperties": rng.choice([True, {"type": "integer"}, False, False]),
               "patternProperties": {"^_": {}}}
        if rng.random() < 0.3:
            out.pop("type")
            out.pop("title")
        return out
    if site == "items_deep":
        return {"items": {"items": {"items": {}}}}
    if site == "properties_deep":
        return {"properties": {"a": {"properties": {"a": {"additionalProperties": {"type": "object", "title": "D"}}}}}}
    if site == "dependencies":
        return {"dependencies": {"a": ["b"], "": {"required": ["\x00"]}, "\x00": {"minProperties": 2}}}
    if site == "contains":
        return {"contains": {"type": "number", "multipleOf": 0.5}}
    if site == "minmax_lengths":
        return {"minLength": rng.choice([0, 1, 10 ** 400]), "maxLength": rng.choice([0, 5, 10 ** 400]),
                "minItems": rng.choice([0, 2, 10 ** 400]), "maxProperties": rng.choice([0, 3, 10 ** 400])}
    raise ValueError(site)


def wrap(rng, schema, how):
    if how == "composition_wrapped":
        key = rng.choice(["anyOf", "oneOf", "allOf"])
        return {key: [schema, rng.choice([{"type": "null"}, {}, {"type": "string"}, schema])]}
    if how == "not_wrapped":
        return {"not": schema}
    return schema


def value_for_site(rng, site):
    if site == "object_subschema":
        member = rng.choice([{"id": 1}, {"id": "x"}, {}, 5, {"id": 1, "zz": 2}, None, [{"id": 1}]])
        return rng.choice([[5, member], [member], {"a": member, "b": 1}, {"a": 1}, member, [], {}])
    if site in ("multipleOf_float", "multipleOf_int", "number", "integer", "bounds", "contains"):
        roll = rng.random()
        if roll < 0.8:
            val = gv.hostile_scalar(rng)
        else:
            val = gv.hostile_value(rng, 1)
        return [val] if site == "contains" and rng.random() < 0.7 else val
    if site == "uniqueItems":
        base = [gv.hostile_value(rng, 1) for _ in range(rng.randint(0, 4))]
        if base and rng.random() < 0.6:
            base.append(copy.deepcopy(rng.choice(base)))
        if base and rng.random() < 0.4:
            base.append(gv.lookalike(rng, rng.choice(base)))
        return base
    if site == "format_other":
        return rng.choice(["a{4294967295}", "(" * 1200 + ")" * 1200, "[", "*", "a{2,1}", 2 ** 31, 2 ** 63, 10 ** 400,
                           "x@" * 2000, "1.1.1.999", gv.hostile_scalar(rng), gv.hostile_scalar(rng)])
    if site in ("format_datetime", "format_uuid", "pattern"):
        if rng.random() < 0.85:
            val = gv.hostile_scalar(rng)
            return val if isinstance(val, str) or rng.random() < 0.2 else str(val)[:2000]
        return gv.hostile_value(rng, 1)
    if site in ("propertyNames", "model_keys", "dependencies", "properties_deep"):
        keys = ["a", "b", "", "\x00", "\ud800", "__class__", "__dict__", "__weakref__", "_dict", "class",
                "é", "a" * 1000, "1", "default", "properties", "_x", "__init__", "a\x00b", "\U0001F600",
                "{}", "{a}", "{", "}", "{0}", "{properties}", "%s", "%(x)s", "{!r}", "{a.b}", "{a[0]}", "\\", "'", '"']
        out = {rng.choice(keys): gv.hostile_value(rng, 1) for _ in range(rng.randint(0, 4))}
        if site == "properties_deep" and rng.random() < 0.5:
            out = {"a": {"a": out}}
        return out
    if site == "items_deep":
        return gv.nest(gv.hostile_scalar(rng), rng.choice([1, 3, 10, 30, 60, 150, 400]), "list")
    return gv.hostile_value(rng, 2)


def schema_nesting(schema, level=0):
    if level > 400:
        return level
    best = level
    if isinstance(schema, dict):
        for member in schema.values():
            best = max(best, schema_nesting(member, level + 1))
    elif isinstance(schema, list):
        for member in schema:
            best = max(best, schema_nesting(member, level))
    return best


def nesting_depth(value):
    depth = 0
    stack = [(value, 0)]
    while stack:
        node, level = stack.pop()
        depth = max(depth, level)
        if isinstance(node, list):
            stack.extend((member, level + 1) for member in node)
        elif isinstance(node, dict):
            stack.extend((member, level + 1) for member in node.values())
    return depth


def observe_call(ctx, sut, element, schema, value, site):
    ctx.evaluation()
    classify_value(ctx, value)
    depth = nesting_depth(value)
    outcome, _res, exc = sut.call(element, value)
    ctx.count("outcome." + outcome.replace("other:", "other_"))
    if depth <= 60:
        ctx.count("depth.judged")
    if outcome in ("ok", "ValidationError", "TypeError"):
        return
    if outcome == "RecursionError" and depth > 60:
        ctx.count("out_of_domain.recursion_beyond_budget")
        return
    if outcome == "RecursionError" and schema_nesting(schema) > 60:
        # a shallow value against a schema nested far deeper: validation itself may need the depth (chains of
        # `not` / `anyOf` recurse once per level whatever the value), which is outside the statement. What is
        # inside it: the library had already decided to reject (a frame of its error constructors is on the
        # stack) and then failed to raise that error.
        tb, deciding = exc.__traceback__, False
        while tb is not None:
            if tb.tb_frame.f_code.co_filename.replace("\\", "/").endswith("statham/schema/exceptions.py"):
                deciding = True
                break
            tb = tb.tb_next
        if not deciding:
            ctx.count("out_of_domain.recursion_in_validation_of_deep_schema")
            return
        ctx.count("deep_schema.rejection_decided_but_not_raised")
    try:
        key = canon([schema, value])[:300]
    except RecursionError:
        key = "deep"
    ctx.witness(
        "escape." + outcome, {"schema": schema, "value": value, "site": site},
        f"{type(exc).__name__} escaped an element call: {exc!r} (depth {depth}) {key[:0]}"[:500],
    )


def sites(ctx, sut):
    rng = ctx.rng
    for idx in range(ctx.params["site_calls"]):
        site = SITES[idx % len(SITES)]
        base_site = site
        if site in ("composition_wrapped", "not_wrapped"):
            base_site = rng.choice([s for s in SITES if not s.endswith("_wrapped")])
        schema = wrap(rng, site_schema(rng, base_site), site)
        ctx.count("site." + site)
        try:
            element = sut.parse_direct(schema)
        except BaseException as exc:  # pylint: disable=broad-except
            if isinstance(exc, (KeyboardInterrupt, SystemExit)):
                raise
            outcome = sut.outcome_class(exc)
            if outcome not in ("SchemaParseError", "FeatureNotImplementedError"):
                ctx.witness("parse_escape." + outcome, {"schema": schema, "site": site},
                            f"{type(exc).__name__} escaped parse_element: {exc!r}"[:500])
            continue
        value = value_for_site(rng, base_site)
        ctx.nontrivial(canon_safe([schema, value]))
        observe_call(ctx, sut, element, schema, value, site)
        if idx % 200 == 0:
            ctx.sample({"site": site, "schema": schema, "value": value})


def canon_safe(obj):
    try:
        return canon(obj)[:4000]
    except RecursionError:
        return "deep:" + str(nesting_depth(obj))


def hostile_literal(rng):
    return rng.choice([10 ** 400, -(10 ** 400), 2 ** 64, 1e308, 5e-324, 1e-320, 2 ** 53 + 1, 0, 1])


# member names aimed at the name mapping: reserved names, and names that only BECOME a keyword or a reserved
# name once Python normalises them (NFKC), starting with an ASCII letter or underscore so that no prefix saves them
HOSTILE_MEMBER_NAMES = ["", "\x00", "__class__", "__dict__", "__weakref__", "a" * 300, "\ud800", "_dict", "é",
                        "__doc__", "__module__", "mro", "c\u2113ass", "pa\u017fs", "i\uff46", "__\uff49nit__",
                        "_d\u2071ct", "d\uff45fault", "\ufb01nally", "propertie\uff53", "__d\u2071ct__",
                        "a\u02e2", "i\u207f", "o\u02b3", "n\u1d52t", "de\ua7f3", "__e\u1d60__", "__ha\u02e2h__"]


def hostilify(rng, schema, depth=0):
    """Replace keyword literals by extreme ones, keeping metaschema validity."""
    if not isinstance(schema, dict) or depth > 6:
        return schema
    out = {}
    for key, val in schema.items():
        if key in ("minLength", "maxLength", "minItems", "maxItems", "minProperties", "maxProperties"):
            out[key] = rng.choice([val, 0, 10 ** 400, 2 ** 64]) if rng.random() < 0.5 else val
        elif key in ("minimum", "maximum", "exclusiveMinimum", "exclusiveMaximum"):
            out[key] = hostile_literal(rng) if rng.random() < 0.5 else val
        elif key == "multipleOf":
            out[key] = rng.choice([val, 1e-320, 5e-324, 1e308, 10 ** 400, 0.1, 3.3]) if rng.random() < 0.6 else val
        elif key in ("const", "default"):
            out[key] = gv.hostile_value(rng, 1) if rng.random() < 0.4 else val
        elif key == "enum":
            out[key] = val
        elif key == "required" and rng.random() < 0.3:
            out[key] = list(dict.fromkeys(val + [rng.choice(HOSTILE_MEMBER_NAMES)]))
        elif key == "title" and rng.random() < 0.3:
            out[key] = rng.choice(["", "!!!", "a" * 500, "\x00", "1", "None", "Object", "\ud800x", "é"])
        elif key in ("properties", "patternProperties", "dependencies", "definitions") and isinstance(val, dict):
            new = {}
            for name, sub in val.items():
                if key == "properties" and rng.random() < 0.2:
                    name = rng.choice(HOSTILE_MEMBER_NAMES)
                new[name] = hostilify(rng, sub, depth + 1) if isinstance(sub, dict) else sub
            out[key] = new
        elif isinstance(val, dict):
            out[key] = hostilify(rng, val, depth + 1)
        elif isinstance(val, list) and key in ("items", "anyOf", "oneOf", "allOf"):
            out[key] = [hostilify(rng, sub, depth + 1) for sub in val]
        else:
            out[key] = val
    if rng.random() < (0.12 if depth == 0 else 0.02):
        out["$schema"] = rng.choice(gs.SCHEMA_URIS)
        SCHEMA_URIS_ADDED[0] += 1
    if rng.random() < 0.08:
        # keywords the library does not know (Draft 6 lets a schema carry any other member): names that mean
        # something to Python or to the library's own constructors
        out[rng.choice(["self", "cls", "args", "kwargs", "value", "name", "element", "elements", "property_",
                        "mcs", "x-vendor", "$comment", "examples", "readOnly", "__class__", "__init__"])] = \
            rng.choice([1, "x", None, [1], {"a": 1}, True])
        UNKNOWN_KEYWORDS[0] += 1
    return out


UNKNOWN_KEYWORDS = [0]
SCHEMA_URIS_ADDED = [0]


def json_safe(value):
    try:
        json.dumps(value)
        return True
    except (ValueError, TypeError, RecursionError):
        return False


def parser_and_calls(ctx, sut):
    rng = ctx.rng
    for idx in range(ctx.params["schemas"]):
        base, _tag = gs.any_schema(rng, gs.Opts(max_depth=3))
        schema = hostilify(rng, base) if isinstance(base, dict) else base
        if idx % 9 == 0 and isinstance(schema, dict):
            # deep (in-budget) schema nesting
            levels = rng.choice([5, 20, 40, 120, 180, 240])
            if levels > 100:
                ctx.count("parse.deep_schema_beyond_100")
            for _ in range(levels):
                schema = rng.choice([
                    lambda s: {"items": s}, lambda s: {"properties": {"a": s}}, lambda s: {"not": s},
                    lambda s: {"anyOf": [s]}, lambda s: {"additionalProperties": s},
                ])(schema)
            ctx.count("parse.deep_schema")
        try:
            if not refmodel.metaschema_valid(schema):
                ctx.count("generator.metaschema_invalid_skipped")
                continue
        except Exception:  # pylint: disable=broad-except
            ctx.count("generator.metaschema_error_skipped")
            continue
        ctx.count("parse.hostile_schemas")
        ctx.count("parse.unknown_keywords_added", UNKNOWN_KEYWORDS[0])
        UNKNOWN_KEYWORDS[0] = 0
        ctx.count("parse.names_a_meta_schema", SCHEMA_URIS_ADDED[0])
        SCHEMA_URIS_ADDED[0] = 0
        ctx.evaluation()
        try:
            element = sut.parse_direct(schema)
            ctx.count("parse.ok")
        except BaseException as exc:  # pylint: disable=broad-except
            if isinstance(exc, (KeyboardInterrupt, SystemExit)):
                raise
            outcome = sut.outcome_class(exc)
            ctx.count("parse." + outcome.replace("other:", "other_"))
            if outcome not in ("SchemaParseError", "FeatureNotImplementedError"):
                ctx.witness("parse_escape." + outcome, {"schema": schema, "site": "parser"},
                            f"{type(exc).__name__} escaped parse_element on a metaschema-valid schema: {exc!r}"[:500])
            continue
        if isinstance(schema, dict) and "$schema" in schema:
            # the document entry point reads the document level: same contract
            ctx.evaluation()
            try:
                sut.st_parser.parse(sut.add_titles(copy.deepcopy(schema)))
                ctx.count("parse.document_naming_a_meta_schema")
            except BaseException as exc:  # pylint: disable=broad-except
                if isinstance(exc, (KeyboardInterrupt, SystemExit)):
                    raise
                outcome = sut.outcome_class(exc)
                if outcome not in ("SchemaParseError", "FeatureNotImplementedError"):
                    ctx.witness("parse_escape." + outcome, {"schema": schema, "site": "parse"},
                                f"{type(exc).__name__} escaped parse() on a metaschema-valid document: {exc!r}"[:500])
        values = [gv.hostile_value(rng, 2) for _ in range(ctx.params["values"] // 2)]
        values += gv.batch_for_schema(rng, base, base, count=ctx.params["values"] // 2) \
            if isinstance(base, dict) else []
        for value in values:
            ctx.nontrivial(canon_safe([schema, value]))
            observe_call(ctx, sut, element, schema, value, "generated")
        # calling with nothing at all must also be total
        outcome = sut.call(element, sut.NotPassed())[0]
        if outcome not in ("ok", "ValidationError", "TypeError"):
            ctx.witness("escape_on_notpassed." + outcome, {"schema": schema, "site": "notpassed"}, outcome)


HOSTILE_TITLES = ["", " ", "!!!", "é", "日本語", "—", "???", "\ud800", "\x00", "1", "123", "a" * 500, "None", "Object",
                  "\U0001F600", "_", "__", "-", "a-b", "ünï cödé", "\n", "title with spaces", "Ⅷ", "²"]


def boolean_and_untitled_roots(ctx, sut):
    """`true` and `false` are schemas; so is an untitled object that holds an unrenderable integer (the
    refusal for the missing title must still be the schema-parse error)."""
    cases = [("parse", True), ("parse", False), ("parse_element", True), ("parse_element", False),
             ("parse_element", {"type": "object", "const": HUGE_TOKEN}),
             ("parse", {"type": "object", "properties": {"a": {"type": "object", "enum": [HUGE_TOKEN]}}}),
             ("parse", {"definitions": {"t": True, "f": False}, "type": "string"}),
             # untitled objects that carry an identifier of their own (a plain-name fragment, a pointer, a URL)
             ("parse_element", {"type": "object", "$id": "#address"}),
             ("parse", {"type": "object", "$id": "root.json#address", "properties": {}}),
             ("parse_element", {"type": "object", "$id": "#/definitions/items"}),
             ("parse_element", {"type": "array", "items": {"type": "object", "$id": "http://example.com/a b#x y"}}),
             ("parse_element", {"type": "object", "$id": ""}), ("parse_element", {"type": "object", "$id": "#"})]
    for idx, (route, shape) in enumerate(cases):
        if idx % ctx.nshards != ctx.shard:
            continue
        schema = instantiate_huge(shape) if not isinstance(shape, bool) else shape
        ctx.evaluation()
        ctx.count("parse.boolean_or_untitled_roots")
        try:
            (sut.st_parser.parse if route == "parse" else sut.st_parser.parse_element)(schema)
        except BaseException as exc:  # pylint: disable=broad-except
            outcome = sut.outcome_class(exc)
            if outcome not in ("SchemaParseError", "FeatureNotImplementedError"):
                ctx.witness("parse_escape." + outcome, {"schema_shape": shape, "route": route, "site": "roots"},
                            f"{type(exc).__name__} escaped {route}: {exc!r}"[:300])


def raw_parser_calls(ctx, sut):
    """parse_element / parse on the caller's own dicts, WITHOUT the labeller's annotations: explicit
    (possibly hostile) titles only.  Only the error family is judged."""
    import copy as _copy  # pylint: disable=import-outside-toplevel

    rng = ctx.rng
    for idx in range(max(40, ctx.params["schemas"] // 2)):
        title = rng.choice(HOSTILE_TITLES)
        inner = {"type": "object", "title": title, "properties": {rng.choice(["a", "", "é"]): {"type": "string"}}}
        shape = rng.choice(["root", "items", "definitions", "typelist", "property", "anyOf"])
        if shape == "root":
            schema = inner
        elif shape == "items":
            schema = {"type": "array", "items": inner}
        elif shape == "definitions":
            schema = {"type": "string", "definitions": {"d": inner}}
        elif shape == "typelist":
            schema = {"type": ["object", "null"], "title": title}
        elif shape == "property":
            schema = {"type": "object", "title": "Outer", "properties": {"p": inner}}
        else:
            schema = {"anyOf": [inner, {"type": "null"}]}
        if "title" in schema and rng.random() < 0.2:
            del schema["title"]  # a missing title is a documented SchemaParseError
        for entry in ("parse_element", "parse"):
            ctx.evaluation()
            ctx.count("parse.raw_hostile_titles")
            try:
                if entry == "parse":
                    sut.st_parser.parse(_copy.deepcopy(schema))
                else:
                    sut.st_parser.parse_element(_copy.deepcopy(schema))
                ctx.count("parse.ok")
            except BaseException as exc:  # pylint: disable=broad-except
                if isinstance(exc, (KeyboardInterrupt, SystemExit)):
                    raise
                outcome = sut.outcome_class(exc)
                ctx.count("parse." + outcome.replace("other:", "other_"))
                if outcome not in ("SchemaParseError", "FeatureNotImplementedError"):
                    ctx.witness("parse_escape." + outcome, {"schema": schema, "site": "raw_" + entry},
                                f"{type(exc).__name__} escaped {entry} on a metaschema-valid schema: {exc!r}"[:400])
        ctx.nontrivial(canon_safe([schema, shape]))
    # schemas nested far beyond the recursion budget: the parser documents that it converts stack
    # exhaustion into its not-implemented error, so RecursionError must not escape either entry point
    for depth in (300, 1500, 3000):
        for wrap_kind in ("items", "properties", "anyOf", "not", "additionalProperties"):
            schema = {"type": "string"}
            for _ in range(depth):
                if wrap_kind == "items":
                    schema = {"items": schema}
                elif wrap_kind == "properties":
                    schema = {"properties": {"a": schema}}
                elif wrap_kind == "anyOf":
                    schema = {"anyOf": [schema]}
                elif wrap_kind == "not":
                    schema = {"not": schema}
                else:
                    schema = {"additionalProperties": schema}
            for entry in ("parse_element", "parse"):
                ctx.evaluation()
                ctx.count("parse.beyond_recursion_budget")
                try:
                    if entry == "parse":
                        sut.st_parser.parse(schema)
                    else:
                        sut.st_parser.parse_element(schema)
                    ctx.count("parse.ok")
                except BaseException as exc:  # pylint: disable=broad-except
                    if isinstance(exc, (KeyboardInterrupt, SystemExit)):
                        raise
                    outcome = sut.outcome_class(exc)
                    ctx.count("parse." + outcome.replace("other:", "other_"))
                    if outcome not in ("SchemaParseError", "FeatureNotImplementedError"):
                        ctx.witness("parse_escape." + outcome,
                                    {"schema": f"<{wrap_kind} nested {depth} deep>", "site": "deep_" + entry,
                                     "wrap": wrap_kind, "depth": depth},
                                    f"{type(exc).__name__} escaped {entry} on a schema nested {depth} deep")
                # the dicts are rewritten in place by the parser: rebuild for the next entry point
                schema = {"type": "string"}
                for _ in range(depth):
                    schema = {"items": schema} if wrap_kind == "items" else (
                        {"properties": {"a": schema}} if wrap_kind == "properties" else (
                            {"anyOf": [schema]} if wrap_kind == "anyOf" else (
                                {"not": schema} if wrap_kind == "not" else {"additionalProperties": schema})))


HUGE_TOKEN = "\u00a7int-beyond-the-str-limit\u00a7"
HUGE_SHAPES = [HUGE_TOKEN, [HUGE_TOKEN], {"a": HUGE_TOKEN}, [HUGE_TOKEN, HUGE_TOKEN], {"a": [1, HUGE_TOKEN]},
               [1, "x", HUGE_TOKEN], {"id": HUGE_TOKEN}, {"a": {"id": HUGE_TOKEN}}, [[HUGE_TOKEN]]]


def instantiate_huge(shape, sign=1):
    """The recorded shape with the token replaced by an integer of more than 4300 digits (CPython refuses to
    render those: `repr`, `str`, `format` and json all raise ValueError).  Cases are recorded with the
    token, so the harness itself never renders the number."""
    if shape == HUGE_TOKEN:
        return sign * 10 ** 5000 + 7
    if isinstance(shape, list):
        return [instantiate_huge(member, sign) for member in shape]
    if isinstance(shape, dict):
        return {key: instantiate_huge(member, sign) for key, member in shape.items()}
    return shape


def beyond_str_limit(ctx, sut):
    """Extreme numbers: integers which the interpreter cannot turn into text.  Whatever a site does with
    such a value - accept it, reject it - the report of a rejection must still be the validation error."""
    rng = ctx.rng
    for idx in range(ctx.params.get("huge_calls", 400)):
        site = SITES[idx % len(SITES)]
        base_site = site
        if site in ("composition_wrapped", "not_wrapped"):
            base_site = rng.choice([s for s in SITES if not s.endswith("_wrapped")])
        schema = wrap(rng, site_schema(rng, base_site), site)
        try:
            element = sut.parse_direct(schema)
        except BaseException:  # pylint: disable=broad-except
            continue
        shape = HUGE_SHAPES[(idx // len(SITES)) % len(HUGE_SHAPES)]
        sign = -1 if idx % 2 else 1
        value = instantiate_huge(shape, sign)
        ctx.evaluation()
        ctx.count("value.int_beyond_str_limit")
        outcome, _res, exc = sut.call(element, value)
        ctx.count("huge.outcome." + outcome.replace("other:", "other_"))
        if outcome in ("ok", "ValidationError", "TypeError"):
            continue
        ctx.witness("escape." + outcome, {"schema": schema, "value_shape": shape, "sign": sign, "site": "huge_" + site},
                    f"{type(exc).__name__} escaped an element call on a value holding an integer of 5001 digits: "
                    f"{exc!r}"[:400])


HUGE_SCHEMAS = [
    {"const": HUGE_TOKEN}, {"enum": [HUGE_TOKEN, 1]}, {"minimum": HUGE_TOKEN}, {"maximum": HUGE_TOKEN},
    {"exclusiveMinimum": HUGE_TOKEN}, {"exclusiveMaximum": HUGE_TOKEN}, {"multipleOf": HUGE_TOKEN},
    {"not": {"const": HUGE_TOKEN}}, {"oneOf": [{"const": HUGE_TOKEN}, {"minimum": HUGE_TOKEN}]},
    {"contains": {"const": HUGE_TOKEN}}, {"items": {"maximum": HUGE_TOKEN}}, {"properties": {"a": {"const": HUGE_TOKEN}}},
    {"type": "string", "default": HUGE_TOKEN}, {"minLength": HUGE_TOKEN}, {"maxItems": HUGE_TOKEN}, {"minProperties": HUGE_TOKEN},
    {"required": ["a"], "properties": {"a": {"default": HUGE_TOKEN, "maximum": 5}}},
    {"propertyNames": {"const": HUGE_TOKEN}}, {"dependencies": {"a": {"minimum": HUGE_TOKEN}}},
    {"anyOf": [{"minimum": HUGE_TOKEN}, {"type": "null"}]}, {"allOf": [{"maximum": HUGE_TOKEN}]},
    {"type": ["integer", "string"], "minimum": HUGE_TOKEN}, {"additionalProperties": {"enum": [HUGE_TOKEN]}},
]
HUGE_SCHEMA_VALUES = [1, 0, -1, "x", "", [1], [], {"a": 1}, {}, None, True, 1.5, [[1]], {"a": {"a": 1}}, HUGE_TOKEN,
                      [HUGE_TOKEN], {"a": HUGE_TOKEN}]


def beyond_str_limit_in_schema(ctx, sut):
    """The same limit on the schema's side: keyword values the interpreter cannot render.  Parsing must
    work and every call must end in a result or in the validation error."""
    for idx, shape in enumerate(HUGE_SCHEMAS):
        for sign in (1, -1):
            if (idx * 2 + (sign < 0)) % ctx.nshards != ctx.shard:
                continue
            schema = instantiate_huge(shape, sign)
            case = {"schema_shape": shape, "sign": sign, "site": "hugeschema"}
            ctx.evaluation()
            try:
                element = sut.parse_direct(schema)
            except BaseException as exc:  # pylint: disable=broad-except
                outcome = sut.outcome_class(exc)
                if outcome not in ("SchemaParseError", "FeatureNotImplementedError"):
                    ctx.witness("parse_escape." + outcome, case,
                                f"{type(exc).__name__} escaped parse_element on a schema holding an integer of "
                                f"5001 digits: {exc!r}"[:400])
                continue
            ctx.count("schema.int_beyond_str_limit")
            for vshape in HUGE_SCHEMA_VALUES + ["<nothing>"]:
                value = sut.NotPassed() if vshape == "<nothing>" else instantiate_huge(vshape, 1)
                ctx.evaluation()
                outcome, _res, exc = sut.call(element, value)
                ctx.count("hugeschema.outcome." + outcome.replace("other:", "other_"))
                if outcome not in ("ok", "ValidationError", "TypeError"):
                    ctx.witness("escape." + outcome, {**case, "value_shape": vshape},
                                f"{type(exc).__name__} escaped a call of an element whose schema holds an integer "
                                f"of 5001 digits: {exc!r}"[:400])
                    break


def nested_default_chain(depth, with_member_defaults):
    schema = {"type": "object", "title": "Leaf", "default": {},
              "properties": {"v": {"type": "integer", **({"default": 3} if with_member_defaults else {})}}}
    for level in range(depth):
        schema = {"type": "object", "title": f"Level{level}", "default": {}, "properties": {"next": schema}}
    return schema


def work_is_bounded(ctx, sut, only=None):
    """"Every call terminates" is judged in logical steps, never on the clock: the number of times the library
    enters a model's initialiser while answering ONE call, on schemas whose work should grow linearly (models
    whose defaults hold models whose defaults ...).  Doubling per level shows at depth 12 as 8000 entries
    against 50."""
    from statham.schema.elements.object import Object  # pylint: disable=import-outside-toplevel
    from vlib import monitors  # pylint: disable=import-outside-toplevel

    for number, (depth, member_defaults) in enumerate([(4, False), (8, True), (12, False), (12, True)]):
        if only is None and number % ctx.nshards != ctx.shard:
            continue
        if only is not None and [depth, member_defaults] != only:
            continue
        schema = nested_default_chain(depth, member_defaults)
        try:
            element = sut.parse_direct(copy.deepcopy(schema))
        except Exception as exc:  # pylint: disable=broad-except
            ctx.count("work.parse_failed." + type(exc).__name__)
            continue
        for label, args in (("empty_object", ({},)), ("no_value", ())):
            with monitors.CallCounter({"init": Object.__init__, "new": Object.__new__}) as counter:
                try:
                    element(*copy.deepcopy(args))
                except Exception:  # pylint: disable=broad-except
                    pass
            ctx.evaluation()
            entries = counter.calls.get("init", 0) + counter.calls.get("new", 0)
            ctx.count("work.calls_measured")
            ctx.count("work.initialiser_entries", entries)
            budget = 40 * (depth + 2)
            if entries > budget:
                ctx.witness("work_not_bounded", {"site": "work", "depth": depth, "member_defaults": member_defaults},
                            f"one call ({label}) on a chain of {depth} models with defaults entered the model "
                            f"constructors {entries} times (linear budget {budget}): the work multiplies per level")
                break


def documented_recipes(ctx, sut):
    """Usages the documentation recommends around the same calls: a generated model extended in a subclass with
    Python's attribute hooks, and the command line pointed INSIDE a document (`file.json#/pointer`). The
    contract is the same: a result, or an error of the library's own families."""
    if ctx.shard % 4 != 0:
        return
    base = sut.parse_direct({"type": "object", "title": "Recipe", "properties": {"a": {"type": "integer"}},
                             "required": ["a"]})

    class Extended(base):  # pylint: disable=too-few-public-methods
        def __getattr__(self, name):
            # additional members readable as attributes too
            try:
                return self[name]
            except KeyError:
                raise AttributeError(name) from None

        def total(self):
            return self.a

    for value in ({"a": 1}, {"a": 1, "extra": 2}, {}, {"a": "x"}, [], None, {"a": 10 ** 30}):
        ctx.evaluation()
        ctx.count("recipes.subclass_with_getattr")
        outcome, _res, exc = sut.call(Extended, copy.deepcopy(value))
        if outcome not in ("ok", "ValidationError", "TypeError"):
            ctx.witness("escape." + outcome, {"site": "recipe_getattr", "value": value},
                        f"{type(exc).__name__} escaped a model subclass that defines __getattr__: {exc!r}"[:400])
            break
    from statham.__main__ import main  # pylint: disable=import-outside-toplevel

    docs = {
        "no_definitions": {"type": "object", "title": "Doc", "properties": {
            "inner": {"type": "object", "title": "Inner", "properties": {"n": {"type": "integer"}}}}},
        "with_definitions": {"type": "object", "title": "Doc2", "properties": {"inner": {"$ref": "#/definitions/in"}},
                             "definitions": {"in": {"type": "object", "title": "In", "properties": {"n": {"type": "integer"}}}}},
    }
    for label, doc in docs.items():
        path = os.path.join(ctx.tmpdir(), f"c10_recipe_{ctx.shard}_{label}.json")
        with open(path, "w", encoding="utf8") as handle:
            json.dump(doc, handle)
        try:
            for pointer in ("", "#/", "#/properties/inner", "#/definitions/in" if "definitions" in doc else "#/properties"):
                ctx.evaluation()
                ctx.count("recipes.cli_pointer")
                try:
                    main(path + pointer)
                except BaseException as exc:  # pylint: disable=broad-except
                    if isinstance(exc, (KeyboardInterrupt, SystemExit)):
                        raise
                    outcome = sut.outcome_class(exc)
                    if outcome not in ("SchemaParseError", "FeatureNotImplementedError"):
                        ctx.witness("parse_escape." + outcome, {"site": "recipe_cli_pointer", "doc": doc, "pointer": pointer},
                                    f"{type(exc).__name__} escaped the command line's entry point for {pointer!r}: {exc!r}"[:400])
        finally:
            os.remove(path)


def run_shard(ctx):
    from vlib import sut  # pylint: disable=import-outside-toplevel

    documented_recipes(ctx, sut)
    work_is_bounded(ctx, sut)
    beyond_str_limit(ctx, sut)
    beyond_str_limit_in_schema(ctx, sut)
    boolean_and_untitled_roots(ctx, sut)
    sites(ctx, sut)
    parser_and_calls(ctx, sut)
    raw_parser_calls(ctx, sut)


def replay(case, ctx):
    from vlib import sut  # pylint: disable=import-outside-toplevel

    schema = case.get("schema")
    if str(case.get("site", "")).startswith("recipe_"):
        ctx.shard = 0
        documented_recipes(ctx, sut)
        return
    if case.get("site") == "work":
        work_is_bounded(ctx, sut, only=[case["depth"], case["member_defaults"]])
        return
    if case.get("site") == "roots":
        shape = case["schema_shape"]
        schema = instantiate_huge(shape) if not isinstance(shape, bool) else shape
        ctx.evaluation()
        try:
            (sut.st_parser.parse if case["route"] == "parse" else sut.st_parser.parse_element)(schema)
        except BaseException as exc:  # pylint: disable=broad-except
            outcome = sut.outcome_class(exc)
            if outcome not in ("SchemaParseError", "FeatureNotImplementedError"):
                ctx.witness("parse_escape." + outcome, case, repr(exc)[:200])
        return
    if case.get("site") == "hugeschema":
        element = sut.parse_direct(instantiate_huge(case["schema_shape"], case.get("sign", 1)))
        vshape = case.get("value_shape", 1)
        value = sut.NotPassed() if vshape == "<nothing>" else instantiate_huge(vshape, 1)
        ctx.evaluation()
        outcome, _res, exc = sut.call(element, value)
        if outcome not in ("ok", "ValidationError", "TypeError"):
            ctx.witness("escape." + outcome, case, f"{type(exc).__name__}: {exc!r}"[:300])
        return
    if str(case.get("site", "")).startswith("huge_"):
        element = sut.parse_direct(schema)
        ctx.evaluation()
        outcome, _res, exc = sut.call(element, instantiate_huge(case["value_shape"], case.get("sign", 1)))
        if outcome not in ("ok", "ValidationError", "TypeError"):
            ctx.witness("escape." + outcome, case, f"{type(exc).__name__}: {exc!r}"[:300])
        return
    if str(case.get("site", "")).startswith("deep_"):
        schema = {"type": "string"}
        for _ in range(case["depth"]):
            kind = case["wrap"]
            schema = {"items": schema} if kind == "items" else ({"properties": {"a": schema}} if kind == "properties" else (
                {"anyOf": [schema]} if kind == "anyOf" else ({"not": schema} if kind == "not" else {"additionalProperties": schema})))
        ctx.evaluation()
        try:
            (sut.st_parser.parse if case["site"] == "deep_parse" else sut.st_parser.parse_element)(schema)
        except BaseException as exc:  # pylint: disable=broad-except
            outcome = sut.outcome_class(exc)
            if outcome not in ("SchemaParseError", "FeatureNotImplementedError"):
                ctx.witness("parse_escape." + outcome, case, repr(exc)[:200])
        return
    if case.get("site") == "parse":
        ctx.evaluation()
        try:
            sut.st_parser.parse(sut.add_titles(copy.deepcopy(schema)))
        except BaseException as exc:  # pylint: disable=broad-except
            outcome = sut.outcome_class(exc)
            if outcome not in ("SchemaParseError", "FeatureNotImplementedError"):
                ctx.witness("parse_escape." + outcome, case, repr(exc)[:200])
        return
    if str(case.get("site", "")).startswith("raw_"):
        import copy as _copy  # pylint: disable=import-outside-toplevel

        ctx.evaluation()
        try:
            if case["site"] == "raw_parse":
                sut.st_parser.parse(_copy.deepcopy(schema))
            else:
                sut.st_parser.parse_element(_copy.deepcopy(schema))
        except BaseException as exc:  # pylint: disable=broad-except
            outcome = sut.outcome_class(exc)
            if outcome not in ("SchemaParseError", "FeatureNotImplementedError"):
                ctx.witness("parse_escape." + outcome, case, repr(exc))
        return
    try:
        element = sut.parse_direct(schema)
    except BaseException as exc:  # pylint: disable=broad-except
        outcome = sut.outcome_class(exc)
        ctx.evaluation()
        if outcome not in ("SchemaParseError", "FeatureNotImplementedError"):
            ctx.witness("parse_escape." + outcome, case, repr(exc))
        return
    if "value" in case:
        observe_call(ctx, sut, element, schema, case["value"], case.get("site", "replay"))
