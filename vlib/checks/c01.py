"""C01 - validation verdicts match JSON Schema Draft 6 (reference-model monitor)."""
import copy
import json

from vlib import gen_schemas as gs
from vlib import gen_values as gv
from vlib import refmodel
from vlib.runner import canon

PROPERTY = "C01"
NEEDS_JSONSCHEMA = True
TECHNIQUE = (
    "runtime monitoring: differential oracle (executable Draft-6 reference model, jsonschema "
    "as second opinion) observing real parse_element/element calls on generated schema x value pairs"
)
RULE = (
    "schemas from a grammar over all supported keywords + interaction templates, parsed directly and "
    "through the CLI route (file, RefDict, materialize, parse); values = valid-by-construction attempts, "
    "one-point mutants, bool/number lookalikes, unconstrained; a case is (schema, value); non-trivial = "
    "schema has >= 2 validation keywords or nesting >= 1; distinct by canonical type-tagged JSON"
)
ASSUMPTIONS = [
    "the reference model (vlib/refmodel.py, written from the Draft-6 spec) is the oracle; jsonschema "
    "Draft6Validator is consulted as second opinion and a three-way disagreement is INCONCLUSIVE",
    "numeric literals are dyadic rationals so float quotient and exact arithmetic agree",
    "format strings are curated (canonical UUID / RFC 3339 / obvious non-members); any other string under "
    "a registered format accepts either verdict",
    "required+default waiver is evaluated both ways; either verdict is accepted when they differ",
    "a top-level TypeError counts as rejection (tallied separately)",
]
REQUIRED_COUNTERS = [
    "accept", "reject", "route.direct", "route.file", "decided.true_by_model", "decided.false_by_model",
    "jsonschema.agree", "format.registered_mid_run", "format.custom_decided", "format.probe",
] + [f"kw.{k}" for k in (
    "type", "enum", "const", "minimum", "maximum", "exclusiveMinimum", "exclusiveMaximum", "multipleOf",
    "minLength", "maxLength", "pattern", "format", "items", "additionalItems", "minItems", "maxItems",
    "uniqueItems", "contains", "properties", "patternProperties", "additionalProperties", "required",
    "minProperties", "maxProperties", "propertyNames", "dependencies", "anyOf", "oneOf", "allOf", "not",
)]

ANCHORS = [
    "statham.schema.parser:parse_element",
    "statham.schema.parser:_parse_composition",
    "statham.schema.parser:_compose_elements",
    "statham.schema.parser:_parse_multi_typed",
    "statham.schema.parser:_parse_object",
    "statham.schema.parser:_parse_properties",
    "statham.schema.parser:_parse_items",
    "statham.schema.parser:_parse_dependencies",
    "statham.schema.elements.base:Element.__call__",
    "statham.schema.elements.object:Object.__new__",
    "statham.schema.elements.composition:_attempt_schemas",
    "statham.schema.elements.composition:Not.construct",
    "statham.schema.elements.properties:Properties.__getitem__",
    "statham.schema.elements.items:Items.__getitem__",
    "statham.schema.validation.base:_is_instance",
    "statham.schema.validation.base:Const._validate",
    "statham.schema.validation.base:Enum._validate",
    "statham.schema.validation.array:UniqueItems._validate",
    "statham.schema.validation.array:AdditionalItems._validate",
    "statham.schema.validation.array:Contains._validate",
    "statham.schema.validation.numeric:MultipleOf._validate",
    "statham.schema.validation.object:Required.from_element",
    "statham.schema.validation.object:AdditionalProperties._validate",
    "statham.schema.validation.object:Dependencies._validate",
    "statham.schema.validation.object:PropertyNames._validate",
    "statham.schema.validation.string:Pattern._validate",
    "statham.schema.validation.string:Format._validate",
    "statham.schema.elements.meta:ObjectMeta.validators",
]


def plan(tier):
    if tier == "quick":
        return {"shards": 16, "schemas": 260, "values": 10, "timeout": 900, "mirror": True}
    return {"shards": 16, "schemas": 26000, "values": 10, "timeout": 7200, "mirror": True}


def js_verdict(schema, value):
    """Second opinion; None = abstains (crash, or a documented deviation applies)."""
    if "\\\\1" in json.dumps(schema):
        # jsonschema finds additional properties with ONE regex joined from all patterns ("|".join), which
        # renumbers capture groups: numeric back-references then point at the wrong group.  It abstains.
        return None
    try:
        import jsonschema  # pylint: disable=import-outside-toplevel

        validator = jsonschema.Draft6Validator(schema)
        return validator.is_valid(value)
    except Exception:  # pylint: disable=broad-except
        return None


def has_float_integer(value):
    """Is there a float with integral value anywhere (deviation: 1.0 not an integer)?"""
    if isinstance(value, float):
        return value == int(value) if abs(value) < 1e300 else True
    if isinstance(value, list):
        return any(has_float_integer(v) for v in value)
    if isinstance(value, dict):
        return any(has_float_integer(v) for v in value.values())
    return False


CUSTOM_FORMATS = {}


def even_length(value):
    return len(value) % 2 == 0


def judge(ctx, sut, element, schema, root, value, route, tag):
    """Compare the real outcome of one call with the model's verdict set."""
    allowed = refmodel.verdicts(schema, value, root, curated=gv.CURATED, custom=CUSTOM_FORMATS, ecma=True)
    value_before = canon(value)
    outcome, _result, exc = sut.call(element, value)
    ctx.evaluation()
    ctx.count("route." + route)
    if canon(value) != value_before:
        ctx.count("diagnostic.input_mutated")
    if outcome == "ok":
        got = True
        ctx.count("accept")
    elif outcome == "ValidationError":
        got = False
        ctx.count("reject")
    elif outcome == "TypeError":
        got = False
        ctx.count("reject")
        ctx.count("reject.as_TypeError")
    else:
        ctx.witness(
            "escape", {"schema": root, "value": value, "route": route},
            f"{outcome}: {exc!r}",
        )
        return outcome
    if len(allowed) == 2:
        ctx.count("ambiguous")
        return got
    want = next(iter(allowed))
    ctx.count("decided.true_by_model" if want else "decided.false_by_model")
    if CUSTOM_FORMATS and isinstance(value, str) and '"my-format"' in json.dumps(schema):
        ctx.count("format.custom_decided")
    if ctx.rng.random() < 0.12 and isinstance(schema, dict):
        # evidence that values are aimed: which root-level keywords DECIDE the verdict of this case
        # (the model's verdict flips when the keyword alone is removed)
        for key in list(schema):
            if key in ("title", "description", "default", "definitions"):
                continue
            reduced = {k: v for k, v in schema.items() if k != key}
            try:
                other = refmodel.verdicts(reduced, value, root if root is not schema else reduced,
                                          curated=gv.CURATED, custom=CUSTOM_FORMATS, ecma=True)
            except Exception:  # pylint: disable=broad-except
                continue
            if other == {not want}:
                ctx.count(f"decisive.{key}.{'accepting' if want else 'rejecting'}")
    size = gs.size_of(schema)
    if size[0] >= 2 or size[1] >= 1:
        ctx.nontrivial(canon([schema, value]))
    if got == want:
        # second opinion on agreement is only sampled (cost), to count oracle health
        if ctx.rng.random() < 0.15 and "format" not in json.dumps(schema) and not has_float_integer(value):
            second = js_verdict(schema if root is schema else {**schema, "definitions": root.get("definitions", {})}, value)
            if second is None:
                ctx.count("jsonschema.abstain")
            elif second == want:
                ctx.count("jsonschema.agree")
            else:
                ctx.count("jsonschema.disagrees_with_both")
                ctx.inconclusive_reason(
                    "oracle dispute: jsonschema disagrees with model and statham on "
                    + json.dumps({"schema": schema, "value": value}, default=repr)[:600]
                )
        return got
    # mismatch: ask the second opinion unless a deviation makes it inapplicable
    second = None
    text = json.dumps(root, default=repr)
    # is this a case on which the regex DIALECT decides?  (the model read with Python's `re` instead of
    # ECMA 262 says something else) - then the second opinion, itself built on `re`, is no opinion, and a
    # verdict equal to the Python-dialect one is known finding F41
    dialect = refmodel.verdicts(schema, value, root, curated=gv.CURATED, custom=CUSTOM_FORMATS, ecma=False)
    if dialect != allowed:
        ctx.witness(
            "accepts_invalid" if got else "rejects_valid",
            {"schema": root, "value": value, "route": route, "template": tag},
            f"statham={'accept' if got else 'reject'}({outcome}) model(ECMA 262 patterns)="
            f"{'valid' if want else 'invalid'} model(Python re patterns)={sorted(dialect)}",
            finding="F41" if got in dialect else None,
        )
        return got
    if "format" not in text and not has_float_integer(value) and '"default"' not in text:
        doc = schema if root is schema else {**schema, "definitions": root.get("definitions", {})}
        second = js_verdict(doc, value)
    if second is not None and second == got:
        ctx.count("oracle_dispute")
        ctx.inconclusive_reason(
            "oracle dispute: jsonschema sides with statham against the model on "
            + json.dumps({"schema": schema, "value": value}, default=repr)[:600]
        )
        return got
    finding = classify(schema, root, value, got)
    ctx.witness(
        "accepts_invalid" if got else "rejects_valid",
        {"schema": root, "value": value, "route": route, "template": tag},
        f"statham={'accept' if got else 'reject'}({outcome}) model={'valid' if want else 'invalid'} "
        f"jsonschema={second}",
        finding=finding,
    )
    return got


def classify(schema, root, value, got):
    """Attribute a mismatch to an open known finding via its mechanism predicate."""
    # F10: nested bool/number conflation in const/enum/uniqueItems.  Trigger:
    # a const/enum/uniqueItems keyword in the schema and a bool-or-0/1 below
    # top level in value or literal; and the model with exactly that switch
    # reproduces statham's verdict.
    text = json.dumps(root, default=repr)
    if any(k in text for k in ('"const"', '"enum"', '"uniqueItems"')):
        try:
            conflated = refmodel.verdicts(
                schema, value, root, curated=gv.CURATED, nested_bool_conflation=True, custom=CUSTOM_FORMATS
            )
        except Exception:  # pylint: disable=broad-except
            conflated = set()
        if conflated == {got}:
            return "F10"
    # F44 (same mechanism as in C07): a composition with one branch is reduced to that branch, whose default
    # thereby becomes the default of the enclosing property schema - and waives its `required`
    if any(k in text for k in ('"anyOf"', '"oneOf"', '"allOf"')) and '"default"' in text and '"required"' in text:
        try:
            reduced = refmodel.verdicts(schema, value, root, curated=gv.CURATED, custom=CUSTOM_FORMATS, ecma=True,
                                        reduced_default=True)
        except Exception:  # pylint: disable=broad-except
            reduced = set()
        if got in reduced:
            return "F44"
    return None


def make_case(ctx, idx):
    """Generate case #idx of this stream (generation never depends on what the library did)."""
    rng = ctx.gen_rng
    route = "file" if idx % 2 else "direct"
    if route == "file":
        if rng.random() < 0.6:
            doc = gs.with_definitions(rng)
            tag = "grammar+definitions"
        else:
            doc, tag = gs.any_schema(rng)
            if not isinstance(doc, dict):
                doc = {"not": doc}
    else:
        doc, tag = gs.any_schema(rng)
    if isinstance(doc, dict) and rng.random() < 0.15 and "$ref" not in json.dumps(doc):
        # keywords at their neutral value (`required: []`, `allOf: [{}]`, `minItems: 0` ...): no verdict changes
        if gs.add_vacuous(rng, doc, count=rng.randint(1, 3)):
            ctx.count("schemas.with_vacuous_keywords")
    try:
        if not refmodel.metaschema_valid(doc):
            ctx.count("generator.metaschema_invalid_skipped")
            return None
    except Exception:  # pylint: disable=broad-except
        ctx.count("generator.metaschema_error_skipped")
        return None
    values = gv.batch_for_schema(rng, doc, doc, count=ctx.params["values"])
    return {"doc": doc, "route": route, "tag": tag, "values": values}


def one_schema(ctx, sut, idx, case):
    doc, route, tag, values = copy.deepcopy(case["doc"]), case["route"], case["tag"], case["values"]
    ctx.count("schemas")
    ctx.count("template." + tag)
    for key in gs.keywords_of(doc):
        ctx.count("kw." + key)
    pristine = copy.deepcopy(doc)
    try:
        if route == "file":
            elements = sut.parse_file(copy.deepcopy(doc), ctx.tmpdir(),
                                      f"c01_{ctx.shard}_{idx}_{'m' if ctx.mirror else 'f'}.json")
            element = elements[0]
        else:
            element = sut.parse_direct(doc)
    except BaseException as exc:  # pylint: disable=broad-except
        ctx.witness(
            "parse_escape", {"schema": pristine, "route": route},
            f"parse of a supported, metaschema-valid schema raised {type(exc).__name__}: {exc!r}"[:600],
        )
        ctx.digest(idx, "parse:" + type(exc).__name__)
        return
    if canon(doc) != canon(pristine):
        ctx.count("diagnostic.caller_schema_mutated")
    outcomes = []
    for value in values:
        outcomes.append(judge(ctx, sut, element, pristine, pristine, copy.deepcopy(value), route, tag))
    if '"format"' not in json.dumps(pristine):
        # (verdicts under `format` legitimately depend on the registration history of the process)
        ctx.digest(idx, outcomes)
    ctx.sample({"schema": pristine, "values": values[:3], "route": route}, every=40)
    if idx % 4 == 1:
        # multi-step use: the element is serialized, the caller edits the returned document (everywhere), the
        # element is used again - it is still the element parsed from the schema
        try:
            sut.scribble_json(sut.serialize_json(element))
        except Exception:  # pylint: disable=broad-except
            ctx.count("diagnostic.serialize_failed_before_second_use")
        else:
            ctx.count("second_use.after_returned_document_was_edited")
            for value in values:
                judge(ctx, sut, element, pristine, pristine, copy.deepcopy(value), route, tag + "+serialized")
    # order-of-parse effects: a second parse of an equal document must agree
    if idx % 5 == 0:
        try:
            again = sut.parse_direct(sut.deref(copy.deepcopy(pristine)))
        except BaseException:  # pylint: disable=broad-except
            return
        for value in values[:4]:
            first = sut.call(element, copy.deepcopy(value))[0]
            second = sut.call(again, copy.deepcopy(value))[0]
            ctx.count("reparse.compared")
            if sut.accepted(first) != sut.accepted(second):
                ctx.witness(
                    "route_dependent_verdict",
                    {"schema": pristine, "value": value, "route": route},
                    f"{route} parse says {first}, direct parse of dereferenced copy says {second}",
                )


PROBE_STRINGS = ["", "a", "ab", "abc", "é", "éé", "2020-01-01", "not a uuid", "x" * 7, "x" * 8]


def format_probe(ctx, sut, position):
    """The SAME strings under `my-format` in every phase of the run (never registered, registered, registered
    again with the opposite checker), with a long-lived element and with a freshly parsed one: a verdict
    remembered per (format, value) from an earlier phase would show up here."""
    schema = {"type": "string", "format": "my-format"}
    if "probe_element" not in ctx.__dict__:
        ctx.probe_element = sut.parse_direct(schema)
    for element in (ctx.probe_element, sut.parse_direct(schema)):
        for value in PROBE_STRINGS:
            ctx.count("format.probe")
            judge(ctx, sut, element, schema, schema, value, "direct", f"format_probe@{position}")


def run_shard(ctx):
    from vlib import sut  # pylint: disable=import-outside-toplevel

    from statham.schema.validation.format import format_checker  # pylint: disable=import-outside-toplevel

    total = ctx.params["schemas"]
    cases = [make_case(ctx, idx) for idx in range(total)]
    for position, (idx, case) in enumerate(ctx.ordered(cases)):
        if position == total // 3:
            # "only registered string formats are checked": from here on `my-format` IS registered (strings
            # validated under that name earlier in this process were accepted with a warning)
            format_checker.register("my-format")(even_length)
            CUSTOM_FORMATS["my-format"] = even_length
            ctx.count("format.registered_mid_run")
        if position == (2 * total) // 3:
            format_checker.register("my-format")(lambda value: not even_length(value))
            CUSTOM_FORMATS["my-format"] = lambda value: not even_length(value)
            ctx.count("format.reregistered_mid_run")
        if case is not None:
            one_schema(ctx, sut, idx, case)
        if position % max(1, total // 12) == 0:
            format_probe(ctx, sut, position)


def replay(case, ctx):
    from vlib import sut  # pylint: disable=import-outside-toplevel

    doc = case["schema"]
    route = case.get("route", "direct")
    if route == "file":
        element = sut.parse_file(copy.deepcopy(doc), ctx.tmpdir(), "replay.json")[0]
    else:
        element = sut.parse_direct(doc)
    if "value" in case:
        judge(ctx, sut, element, doc, doc, case["value"], route, case.get("template", "replay"))
