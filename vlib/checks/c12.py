"""C12 - every JSON name maps to a usable, unambiguous Python name."""
import keyword
import unicodedata

PROPERTY = "C12"
TECHNIQUE = (
    "runtime monitoring: predicate oracle (identifier / keyword / reserved / source / sibling "
    "distinctness / class-name distinctness) evaluated on what the real name-mapping functions and the "
    "end-to-end parse + generated module return, over an enumeration of Unicode code points in context "
    "and confusable sibling sets"
)
RULE = (
    "names = every enumerated code point c in the contexts c, ac, ca, aca, _c_ (quick: stratified sample "
    "covering every general category and block edge; thorough: all 1,114,112 code points), keyword / "
    "dunder / reserved pools, confusable sibling sets and title pools; end-to-end (parse, instantiate, "
    "read back, generate, exec) for pools and a sample; non-trivial = name contains a character outside "
    "[A-Za-z0-9_] or is reserved/keyword/dunder or belongs to a sibling set; distinct by name (set)"
)
ASSUMPTIONS = [
    "a usable identifier = str.isidentifier, compiles as an attribute access, is not a keyword after the "
    "NFKC normalisation the Python parser applies, is not in the library's reserved list, and a model "
    "instance can hold it (set/read back through attribute and item access)",
    "sibling collisions are attributed to F18 only when an independent transcription of the documented "
    "folding rules also folds the two names; any other collision is a violation",
    "title problems are attributed to F22 only by its structural trigger (formatted title empty, a "
    "constant/keyword, or a name of the generated module's own vocabulary)",
]
REQUIRED_COUNTERS = ["titles.large_sets", "pool.internals", "dsl_routes.refused", "dsl_routes.usable", "auto_titles.usable", "pool.half_dunder", 
    "names.mapped", "e2e.instances", "e2e.properties_parsed_twice", "e2e.generated_module", "siblings.sets", "siblings.distinct_ok", "titles.modules_executed",
    "titles.mapped", "titles.distinct_ok", "titles.sets_without_f22_trigger", "cat.Lu", "cat.Ll", "cat.Nd", "cat.No", "cat.Zs", "cat.Po", "cat.Sm", "cat.Mn",
    "cat.Cc", "cat.Cs", "cat.Co", "cat.Cn", "cat.Lo", "cat.Lm", "pool.keywords", "pool.dunder",
]
EXHAUSTIVE_SUBSPACES = {
    "quick": ["all Python keywords, dir(object) names and dunder pool as property names"],
    "thorough": ["all 1,114,112 Unicode code points as property names in 5 contexts (function level)",
                 "all code points as single-character titles",
                 "all Python keywords, dir(object) names and dunder pool as property names"],
}
VOCABULARY = {
    "Any", "List", "Union", "Maybe", "Property", "Object", "Array", "String", "Integer", "Number",
    "Boolean", "Null", "Element", "Nothing", "AnyOf", "OneOf", "AllOf", "Not", "NotPassed",
}

ANCHORS = [
    "statham.schema.parser:_parse_attribute_name",
    "statham.schema.parser:_title_format",
    "statham.schema.parser:_ParseState.dedupe",
    "statham.schema.elements.meta:ObjectClassDict.__setitem__",
]


def plan(tier):
    if tier == "quick":
        return {"shards": 16, "stride": 17, "e2e_every": 40, "sibling_sets": 60, "title_sets": 40,
                "timeout": 900}
    return {"shards": 16, "stride": 1, "e2e_every": 150, "sibling_sets": 2500, "title_sets": 1500,
            "timeout": 7200}


def compiles_as_attribute(attr):
    try:
        compile(f"x.{attr}", "<c12>", "eval")
        return True
    except (SyntaxError, ValueError):
        return False


def name_problems(sut, name, attr):
    """Predicates of the statement on one (JSON name, attribute)."""
    from statham.schema.elements.meta import RESERVED_PROPERTIES  # pylint: disable=import-outside-toplevel

    problems = []
    if not isinstance(attr, str) or not attr.isidentifier():
        problems.append("not an identifier")
        return problems
    if keyword.iskeyword(attr) or keyword.iskeyword(unicodedata.normalize("NFKC", attr)):
        problems.append("is a keyword (after the parser's NFKC normalisation)")
    elif not compiles_as_attribute(attr):
        problems.append("does not compile as an attribute access")
    if attr in RESERVED_PROPERTIES:
        problems.append("is a reserved attribute")
    return problems


# ---- independent transcription of the documented folding rules (for F18)

def fold_model(name):
    """Documented mapping: keep alphanumerics and '_', fold '-', ' ' and
    whitespace to '_', spell out other characters by their Unicode name
    ('unknown' when unnamed) with '_' separators, prefix '_' when the first
    character cannot start an identifier, suffix '_' when reserved, '' ->
    'blank'.  Returns (attribute, set of fold classes used)."""
    used = set()
    out = []
    for idx, char in enumerate(name):
        if (char.isalnum() and ("_" + char).isidentifier()) or char == "_":
            out.append(char)
        elif char in "- " or char.isspace() or char in "\t\n\r\x0b\x0c":
            used.add("separator->_")
            out.append("_")
        else:
            label = unicodedata.name(char, "unknown").lower().replace(" ", "_").replace("-", "_")
            used.add("unnamed->unknown" if label == "unknown" else "symbol->name")
            if idx != 0 and name[idx - 1] != "_":
                label = "_" + label
            if idx != len(name) - 1 and name[idx + 1] != "_":
                label = label + "_"
            out.append(label)
    attr = "".join(out)
    if not attr:
        used.add("empty->blank")
        return "blank", used
    if not (attr[0].isascii() and (attr[0].isalpha() or attr[0] == "_")):
        used.add("prefix_")
        attr = "_" + attr
    # identifiers are NFKC-normalised, as the Python language does with source text
    normal = unicodedata.normalize("NFKC", attr)
    if normal != attr:
        used.add("nfkc")
        attr = normal
    import builtins  # pylint: disable=import-outside-toplevel

    reserved = set(dir(builtins.object)) | set(keyword.kwlist) | {"_dict", "__dict__", "__weakref__"}
    if attr in reserved:
        used.add("reserved_suffix")
        attr += "_"
    return attr, used


def stratified_code_points(stride, shard, nshards):
    """Every code point with index % stride == 0, plus both edges of every
    run of equal general category (so each category and block boundary is hit)."""
    prev = None
    for cp in range(0x110000):
        cat = unicodedata.category(chr(cp))
        edge = cat != prev
        prev = cat
        if (cp % stride == 0 or edge or cp < 0x300) and cp % nshards == shard:
            yield cp
        elif edge and (cp - 1) % nshards == shard and cp > 0:
            yield cp - 1


def function_level(ctx, sut):
    mapper = sut.st_parser._parse_attribute_name  # pylint: disable=protected-access
    tformat = sut.st_parser._title_format  # pylint: disable=protected-access
    e2e_names = []
    serial = 0
    for cp in stratified_code_points(ctx.params["stride"], ctx.shard, ctx.nshards):
        char = chr(cp)
        cat = unicodedata.category(char)
        ctx.count("cat." + cat)
        for name in (char, "a" + char, char + "a", "a" + char + "a", "_" + char + "_"):
            serial += 1
            ctx.evaluation()
            ctx.count("names.mapped")
            try:
                attr = mapper(name)
            except BaseException as exc:  # pylint: disable=broad-except
                ctx.witness("mapping_raised", {"name": name}, f"_parse_attribute_name raised {exc!r}")
                continue
            problems = name_problems(sut, name, attr)
            if not (char.isascii() and (char.isalnum() or char == "_")):
                ctx.nontrivial("n:" + name)
            if serial % 20011 == 7:
                ctx.sample({"name": name, "codepoint": hex(cp), "category": cat, "attribute": attr})
            if problems:
                ctx.witness("bad_attribute_name", {"name": name, "attr": attr, "codepoint": hex(cp),
                                                   "category": cat}, "; ".join(problems))
            elif serial % ctx.params["e2e_every"] == 0:
                e2e_names.append(name)
        # single-character titles
        ctx.count("titles.mapped")
        try:
            cls_name = tformat("T" + char + "x")
        except BaseException as exc:  # pylint: disable=broad-except
            ctx.witness("title_raised", {"title": "T" + char + "x"}, f"_title_format raised {exc!r}")
            continue
        if not cls_name.isidentifier() or keyword.iskeyword(cls_name):
            ctx.witness("bad_class_name", {"title": "T" + char + "x", "class_name": cls_name},
                        "formatted title is not a usable class name")
    return e2e_names


def e2e_name(ctx, sut, name, pool, variant=0):
    """Parse an object schema with this property, build an instance, read it back.  Variants make the
    parser visit the properties more than once (a composition keyword next to them; the same object
    used in two places)."""
    schema = {"type": "object", "title": "Holder", "properties": {name: {"type": "string"}}}
    if variant == 1:
        schema["anyOf"] = [{}]
    elif variant == 2:
        schema["not"] = {"type": "null"}
    elif variant == 3:
        schema = {"properties": {"first": schema, "second": schema}}
    ctx.evaluation()
    ctx.count("pool." + pool)
    if variant:
        ctx.count("e2e.properties_parsed_twice")
    ctx.nontrivial(f"e{variant}:" + name)
    try:
        if variant == 3:
            # the caller's own (shared) dict, as json_ref_dict hands shared $ref targets to the parser
            root = sut.st_parser.parse_element(sut.add_titles(schema) if False else _share(schema))
        else:
            root = sut.parse_direct(schema)
        classes = [c for c in sut.get_object_classes(root) if c.__name__ == "Holder"]
        cls = classes[0] if classes else root
    except sut.SchemaDefinitionError as exc:
        ctx.witness("property_refused", {"name": name}, f"parse refused the property name: {exc!r}")
        return
    except BaseException as exc:  # pylint: disable=broad-except
        ctx.witness("parse_raised", {"name": name}, f"{type(exc).__name__}: {exc!r}")
        return
    props = dict(cls.properties)
    if len(props) != 1:
        ctx.witness("property_lost", {"name": name}, f"properties after parse: {list(props)}")
        return
    attr, prop = next(iter(props.items()))
    problems = name_problems(sut, name, attr)
    if prop.source != name:
        problems.append(f"JSON name not recorded: source={prop.source!r}")
    outcome, inst, exc = sut.call(cls, {name: "v"})
    if outcome != "ok":
        problems.append(f"instantiating with the property raised {outcome}: {exc!r}"[:300])
    else:
        ctx.count("e2e.instances")
        try:
            got_attr = getattr(inst, attr)
            got_item = inst[attr]
            if got_attr != "v" or got_item != "v":
                problems.append(f"read back {got_attr!r}/{got_item!r} instead of 'v'")
            _ = repr(inst)
            if not isinstance(inst, cls):
                problems.append("result is not an instance of the class")
        except BaseException as err:  # pylint: disable=broad-except
            problems.append(f"instance unusable: {type(err).__name__}: {err!r}"[:300])
        # the schema must still apply to the named member
        bad_outcome = sut.call(cls, {name: 5})[0]
        if bad_outcome == "ok":
            problems.append("schema of the property is not applied to the member with that JSON name")
    finding = None
    if not problems:
        # the identifier must also survive the generated module: a class body is compiled Python (NFKC
        # normalisation of identifiers, private-name mangling), and the property must come back the same
        try:
            source = sut.serialize_python(cls)
            namespace = {}
            exec(compile(source, "<generated>", "exec"), namespace)  # pylint: disable=exec-used
            regenerated = namespace[cls.__name__]
            ctx.count("e2e.generated_module")
            regen_props = {key: prop.source for key, prop in regenerated.properties.items()}
            if regen_props != {attr: name}:
                problems.append(f"generated class declares {regen_props} instead of {{{attr!r}: {name!r}}}")
                if attr.startswith("__") and not attr.endswith("__"):
                    finding = "F31"
        except Exception as exc:  # pylint: disable=broad-except
            from vlib.checks.c12 import f22_trigger as _trig  # pylint: disable=import-outside-toplevel,import-self

            problems.append(f"generated module unusable: {type(exc).__name__}: {exc!r}"[:200])
            _ = _trig
    if problems:
        ctx.witness("unusable_property", {"name": name, "attr": attr, "pool": pool}, "; ".join(problems),
                    finding=finding)


def inline_route(ctx, sut, name):
    """The DSL's other ways of declaring a property - `Object.inline`, a class body, assignment into
    `Model.properties` - take the attribute name from the caller: a keyword or reserved attribute is refused
    there (SchemaDefinitionError); it must never end up as the attribute of a model."""
    for route in ("inline", "class_body"):
        ctx.evaluation()
        ctx.count("dsl_routes.tried")
        try:
            if route == "inline":
                cls = sut.Object.inline("Inl", properties={name: sut.Property(sut.String())})
            else:
                from statham.schema.elements.meta import ObjectClassDict  # pylint: disable=import-outside-toplevel

                body = ObjectClassDict()
                body[name] = sut.Property(sut.String())
                cls = sut.ObjectMeta("Body", (sut.Object,), body)
        except sut.SchemaDefinitionError:
            ctx.count("dsl_routes.refused")
            continue
        except BaseException as exc:  # pylint: disable=broad-except
            ctx.witness("dsl_route_raised", {"name": name, "route": route}, f"{type(exc).__name__}: {exc!r}"[:300])
            continue
        problems = name_problems(sut, name, name) if name in (cls.properties or {}) else ["property not declared"]
        outcome, inst, exc = sut.call(cls, {name: "v"})
        if outcome != "ok":
            problems.append(f"instantiating raised {outcome}: {exc!r}"[:200])
        else:
            try:
                if inst[name] != "v":
                    problems.append("member not readable by item")
                _ = repr(inst)
            except BaseException as err:  # pylint: disable=broad-except
                problems.append(f"instance unusable: {type(err).__name__}: {err!r}"[:200])
        if problems:
            ctx.witness("unusable_property", {"name": name, "route": route, "pool": "dsl_routes"},
                        f"`{route}` accepted the attribute name {name!r}: " + "; ".join(problems))
        else:
            ctx.count("dsl_routes.usable")


def _share(schema):
    """Deep copy of {'properties': {'first': X, 'second': X}} that keeps X one shared dict object."""
    import copy as _copy  # pylint: disable=import-outside-toplevel

    inner = _copy.deepcopy(schema["properties"]["first"])
    return {"properties": {"first": inner, "second": inner}}


def pools(ctx, sut):
    import builtins  # pylint: disable=import-outside-toplevel

    kws = list(keyword.kwlist) + list(getattr(keyword, "softkwlist", []))
    dunder = sorted(set(dir(builtins.object)) | {
        "__dict__", "__weakref__", "__module__", "__doc__", "__slots__", "__annotations__",
        "__qualname__", "__call__", "__getitem__", "__iter__", "__len__", "__contains__",
        "__orig_bases__", "__parameters__", "__class_getitem__", "__mro__", "__name__", "__bases__",
        "__properties__", "__items__", "__getattr__", "__set_name__", "__get__", "__bool__",
        "__debug__", "__builtins__", "__file__", "__spec__", "__loader__", "__path__", "__all__",
    })
    special = [
        "_dict", "default", "properties", "required", "description", "additionalProperties", "const",
        "enum", "python", "validators", "annotation", "inline", "type_validator", "mro", "self", "cls",
        "value", "_property", "property_", "patternProperties", "dependencies", "minProperties",
        "items", "construct", "", " ", "  ", "-", "_", "__", "a b", "1", "123", "1a", "a1", "é", "ß",
        "ſ", "aſ", "ｉｆ", "ª", "²", "①", "a²", "x́", "́", "a‍b", "\ud800", "a\x00b", "\n",
        "None", "True", "False", "none", "true", "null", "print", "object", "type", "match", "case",
        "__x", "__private", "___", "__a_", "_Holder__x",
        # long names, with the separators a line splitter or an argument splitter may trip on
        "claim, " * 30 + "end", "http://example.com/" + "seg/" * 40, "a" * 300, "x = Property(String()), y",
        "q', source='z", 'q", source="z', "a)\n    b: str = Property(String(", "ﬁle", "ﬁ", "Ｋ", "ª", "µ", "ǆ", "ℌ", "ｘ１", "Ⅷ", "x̃",
    ]
    for idx, name in enumerate(kws):
        if idx % ctx.nshards == ctx.shard:
            e2e_name(ctx, sut, name, "keywords")
    for idx, name in enumerate(dunder):
        if idx % ctx.nshards == ctx.shard:
            e2e_name(ctx, sut, name, "dunder")
    for idx, name in enumerate(kws + dunder + ["_dict", "plain", "x1", "é", "__private"]):
        if idx % ctx.nshards == ctx.shard:
            inline_route(ctx, sut, name)
    for idx, name in enumerate(special):
        if idx % ctx.nshards == ctx.shard:
            for variant in range(4):
                e2e_name(ctx, sut, name, "special", variant=variant)
    # reserved names with one pair of underscores missing (a rule that completes them lands on the reserved name)
    half = sorted({"__" + name.strip("_") for name in dunder} | {name.strip("_") + "__" for name in dunder})
    for idx, name in enumerate(half):
        if idx % ctx.nshards == ctx.shard:
            e2e_name(ctx, sut, name, "half_dunder")
    # whatever names the library itself uses on a model and on its instances - discovered at run time, so
    # that a name introduced tomorrow (a flag, a cache, a helper) is covered the day it appears
    probe_cls = sut.parse_direct({"type": "object", "title": "Probe", "properties": {"p": {"type": "string"}}})
    probe = probe_cls({"p": "v"})
    internals = sorted((set(vars(probe)) | set(dir(probe)) | set(vars(probe_cls)) | set(vars(sut.Object)))
                       - {"p"})
    # ... and the names it sets or deletes on an instance only WHILE building it (scratch attributes that are
    # gone again when the constructor returns), on the ordinary route and on the route through a class default
    transient = set()
    try:
        def recording(base):
            class Recorder(base):  # pylint: disable=too-few-public-methods
                def __setattr__(self, key, value):
                    transient.add(key)
                    super().__setattr__(key, value)

                def __delattr__(self, key):
                    transient.add(key)
                    super().__delattr__(key)

            return Recorder

        with_default = sut.parse_direct({"type": "object", "title": "ProbeD", "default": {"p": "d"},
                                         "properties": {"p": {"type": "string"}, "q": {"default": 1}}})
        for base, args in ((probe_cls, [({"p": "v"},), ({},)]), (with_default, [(), ({"p": "v"},), (sut.NotPassed(),)])):
            rec = recording(base)
            for arg in args:
                try:
                    rec(*arg)
                except Exception:  # pylint: disable=broad-except
                    ctx.count("pool.internals.recorder_call_refused")
        ctx.count("pool.internals.transient_names_seen", len(transient - {"p", "q"}))
    except Exception as exc:  # pylint: disable=broad-except
        ctx.count("pool.internals.recorder_unavailable." + type(exc).__name__)
    internals = sorted((set(internals) | transient) - {"p", "q"})
    internals = [name for name in internals if not (name.startswith("__") and name.endswith("__"))]
    for idx, name in enumerate(internals):
        if idx % ctx.nshards == ctx.shard:
            e2e_name(ctx, sut, name, "internals")
    renamed = ["class", "my-prop", "a b", "1st", "é", "for", "__init__", "a.b", ""]
    for idx, name in enumerate(renamed):
        if idx % ctx.nshards == ctx.shard:
            for variant in range(4):
                e2e_name(ctx, sut, name, "renamed", variant=variant)
    if ctx.shard:
        ctx.count("pool.keywords", 0)


CONFUSABLE_FAMILIES = [
    ["x" * 70 + "alpha", "x" * 70 + "beta", "x" * 64, "x" * 65, "x" * 63 + "y"],
    ["a b", "a-b", "a_b", "a\tb", "a\nb", "a b", "a b"],
    ["x", "x_", "x__", "_x", "X"],
    ["class", "class_", "class__", "Class", "CLASS"],
    ["1a", "_1a", "__1a", "1A"],
    ["a.b", "a_full_stop_b", "a_full_stop__b", "a..b", "a. b", "a FULL STOP b"],
    ["a$", "a_dollar_sign", "a$_", "a_$"],
    ["", "", "unknown", "_unknown", "\U000f0000"],
    ["", "blank", "_blank", " ", "_"],
    ["é", "é", "É", "_é"],
    ["ﬁ", "fi", "Fi"],
    ["K", "K", "k"],
    ["straße", "strasse", "STRASSE"],
    ["a", "A", "ａ", "а"],
    ["__init__", "__init___", "init", "___init__"],
    ["_dict", "_dict_", "dict", "__dict"],
    ["a+b", "a_plus_sign_b", "a + b", "a+_b"],
    ["for", "for_", "For", "fo r"],
    ["①", "1", "_1", "circled_digit_one", "_circled_digit_one"],
]


def sibling_sets(ctx, sut):
    rng = ctx.rng
    mapper = sut.st_parser._parse_attribute_name  # pylint: disable=protected-access
    for idx in range(ctx.params["sibling_sets"]):
        family = CONFUSABLE_FAMILIES[(idx * ctx.nshards + ctx.shard) % len(CONFUSABLE_FAMILIES)]
        size = rng.randint(2, min(5, len(family)))
        names = rng.sample(family, k=size)
        if rng.random() < 0.3:
            other = rng.choice(CONFUSABLE_FAMILIES)
            names.append(rng.choice(other))
        names = list(dict.fromkeys(names))
        if len(names) < 2:
            continue
        ctx.evaluation()
        ctx.count("siblings.sets")
        ctx.nontrivial("s:" + "\x1f".join(sorted(names)))
        schema = {
            "type": "object", "title": "Sib",
            "properties": {name: {"const": f"v{k}"} for k, name in enumerate(names)},
        }
        try:
            cls = sut.parse_direct(schema)
        except sut.SchemaDefinitionError:
            ctx.count("siblings.refused_reserved")
            continue
        except BaseException as exc:  # pylint: disable=broad-except
            ctx.witness("sibling_parse_raised", {"names": names}, f"{type(exc).__name__}: {exc!r}")
            continue
        sources = sorted(prop.source for prop in cls.properties.values())
        ctx.sample({"sibling_names": names, "attributes": sorted(cls.properties)}, every=30)
        if len(cls.properties) == len(names) and sources == sorted(names):
            ctx.count("siblings.distinct_ok")
            continue
        # some names collapsed: which pairs, and does the documented folding explain it?
        by_attr = {}
        for name in names:
            by_attr.setdefault(mapper(name), []).append(name)
        unexplained = []
        explained_classes = set()
        for attr, group in by_attr.items():
            if len(group) < 2:
                continue
            folds = [fold_model(name) for name in group]
            if len({attr_ for attr_, _ in folds}) == 1:
                for _attr, used in folds:
                    explained_classes |= used
            else:
                unexplained.append((attr, group, [a for a, _ in folds]))
        lost = sorted(set(names) - set(sources))
        if unexplained or not by_attr or all(len(g) < 2 for g in by_attr.values()):
            ctx.witness(
                "sibling_collision", {"names": names},
                f"{len(names)} sibling names became {len(cls.properties)} properties; lost {lost}; "
                f"not explained by the documented folding rules: {unexplained}",
            )
        else:
            ctx.count("siblings.collapsed_by_documented_fold")
            ctx.witness(
                "sibling_collision", {"names": names},
                f"{len(names)} sibling names became {len(cls.properties)} properties; lost {lost}; fold "
                f"classes {sorted(explained_classes)}", finding="F18",
            )


TITLE_POOL = [
    "Thing", "thing", "my thing", "my_thing", "MyThing", "my-thing", "A", "A1", "A 1", "A_1", "a_1",
    "B", "b", "Object", "String", "Any", "List", "Union", "Maybe", "Property", "Array", "Element",
    "any of", "all_of", "not", "None", "True", "False", "none", "class", "Class", "def", "1abc", "é",
    "!!!", "123", "a", "étoile", "x y z", "X-Y", "xY", "XY", "snake_case_title", "Integer", "Nothing",
    "number", "Null", "AnyOf", "one of", "T", "t", "T_1", "T1", "_private", "__dunder__", "import",
    "typing", "Type", "Dict", "object", "Exception", "print", "self",
]


def expected_class_name(title):
    """Independent transcription of the documented title rule (CamelCase of
    ASCII alphanumeric words), used only for F22's structural trigger."""
    import re  # pylint: disable=import-outside-toplevel

    words = [w for w in re.split("[^a-zA-Z0-9]", title) if w]
    out = ""
    for word in words:
        word = word[0].upper() + word[1:]
        for seg in re.findall("[A-Z][^A-Z]*", word):
            out += seg.title()
    return out


def title_sets(ctx, sut):
    rng = ctx.rng
    for idx in range(ctx.params["title_sets"]):
        count = rng.randint(1, 4)
        if idx % 9 == 4:
            count = rng.choice([12, 14, 35])    # numbering past one digit / past any small window
            ctx.count("titles.large_sets")
        pool = TITLE_POOL
        if idx % 2:
            # half of the sets avoid F22's trigger entirely, so that any other
            # class-naming fault cannot hide behind the known finding
            pool = [t for t in TITLE_POOL if not f22_trigger(expected_class_name(t))]
            ctx.count("titles.sets_without_f22_trigger")
        titles = [rng.choice(pool) for _ in range(count)]
        if count >= 12:
            titles = [titles[0]] * count     # ONE title, many different bodies
        if rng.random() < 0.4:
            titles.append(titles[0])  # repeated title, different body
        doc = {"type": "object", "title": "Root", "properties": {}}
        for k, title in enumerate(titles):
            obj = {"type": "object", "title": title,
                   "properties": {f"q{k}": {"type": rng.choice(["string", "integer"]), "maxLength": k}}}
            if (k == 0 or rng.random() < 0.15) and idx % 3 == 1:
                # the same NAME, but given by the labeller (the object has no title of its own): one naming
                # scheme, whatever the source of the name
                obj["_x_autotitle"] = obj.pop("title")
                ctx.count("titles.name_from_label_among_titled")
            # equally titled classes may sit in ANY schema position of the document
            where = rng.choice(["property", "property", "tuple_item", "items", "additionalProperties", "anyOf",
                                "patternProperties", "definitions", "dependencies", "contains", "not",
                                "additionalItems"])
            ctx.count("titles.position." + where)
            if where == "property":
                doc["properties"][f"p{k}"] = obj
            elif where == "tuple_item":
                doc["properties"][f"p{k}"] = {"type": "array", "items": [{"type": "string"}, obj]}
            elif where == "items":
                doc["properties"][f"p{k}"] = {"type": "array", "items": obj}
            elif where == "additionalItems":
                doc["properties"][f"p{k}"] = {"items": [{"type": "string"}], "additionalItems": obj}
            elif where == "additionalProperties":
                doc["properties"][f"p{k}"] = {"additionalProperties": obj}
            elif where == "anyOf":
                doc["properties"][f"p{k}"] = {rng.choice(["anyOf", "oneOf", "allOf"]): [obj, {"type": "null"}]}
            elif where == "patternProperties":
                doc["properties"][f"p{k}"] = {"patternProperties": {"^x": obj}}
            elif where == "definitions":
                doc.setdefault("definitions", {})[f"d{k}"] = obj
            elif where == "dependencies":
                doc["properties"][f"p{k}"] = {"dependencies": {"a": obj}}
            elif where == "contains":
                doc["properties"][f"p{k}"] = {"contains": obj}
            else:
                doc["properties"][f"p{k}"] = {"not": obj}
        ctx.evaluation()
        ctx.count("titles.sets")
        ctx.nontrivial("t:" + "\x1f".join(titles))
        trigger = [t for t in titles + ["Root"] if f22_trigger(expected_class_name(t))]
        try:
            elements = sut.st_parser.parse(sut.add_titles(doc))
            text = sut.serialize_python(*elements)
            namespace = {}
            exec(compile(text, "<generated>", "exec"), namespace)  # pylint: disable=exec-used
            ctx.count("titles.modules_executed")
        except BaseException as exc:  # pylint: disable=broad-except
            if isinstance(exc, (KeyboardInterrupt, SystemExit)):
                raise
            ctx.witness(
                "module_unusable", {"titles": titles},
                f"generating/executing the module raised {type(exc).__name__}: {exc!r}"[:400],
                finding="F22" if trigger else None,
            )
            continue
        classes = sut.get_object_classes(*elements)
        uniq = {id(c): c for c in classes}.values()
        names = [c.__name__ for c in uniq]
        problems = []
        if len(set(names)) != len(names):
            problems.append(f"two classes share a name: {sorted(names)}")
        for name in names:
            if not name.isidentifier() or keyword.iskeyword(name):
                problems.append(f"class name {name!r} is not usable")
            elif name in VOCABULARY and name != "Object":
                problems.append(f"class name {name!r} equals a name the module imports/uses")
            elif name == "Object":
                problems.append("class name 'Object' shadows the imported base class")
            elif not isinstance(namespace.get(name), type) or not issubclass(namespace[name], sut.Object):
                problems.append(f"executed module does not define class {name!r}")
        if problems:
            ctx.witness("bad_class_names", {"titles": titles}, "; ".join(problems[:4]),
                        finding="F22" if trigger else None)
        else:
            ctx.count("titles.distinct_ok")


AUTO_TITLE_NAMES = [
    "plain", "snake_case", "with space", "a/b", "tilde~x", "v1/", "http://example.com/ns/", "/lead", "a//b", "~", "~~",
    "~1", "~0", "~01", "a~", "/", "//", "x/y/z", "items", "anyOf", "not", "0", "12", "properties", "definitions",
    "a#b", "#", "a?b", "a%20b", "%", "a.b", ".json", "é", "日本", "a\\b", "a\"b", "x ", " x", "camelCase", "UPPER",
]


def auto_titles(ctx, sut):
    """Untitled objects are named after the property they sit under (command-line route).  Whatever the
    property is called - slashes and tildes are escaped in JSON pointers - a class must come out, under a
    valid name distinct from its owner's, with the JSON name still recorded on the property."""
    for idx, name in enumerate(AUTO_TITLE_NAMES):
        if idx % ctx.nshards != ctx.shard:
            continue
        schema = {"type": "object", "title": "Root", "properties": {
            name: {"type": "object", "properties": {"leaf": {"type": "string"}}},
            "sibling": {"type": "object", "properties": {"other": {"type": "integer"}}}}}
        case = {"auto_title_name": name, "schema": schema}
        ctx.evaluation()
        ctx.count("auto_titles.documents")
        segment = name.replace("~", "~0").replace("/", "~1")
        special = segment in ("items", "anyOf", "oneOf", "allOf", "not") or segment.isdigit()
        expected = None if special else expected_class_name(segment)
        finding = "F22" if expected is not None and f22_trigger(expected) else None
        try:
            elements = sut.parse_file(schema, ctx.tmpdir(), f"c12auto_{ctx.shard}_{idx}.json")
            root = elements[0]
        except BaseException as exc:  # pylint: disable=broad-except
            ctx.witness("auto_title_unusable", case,
                        f"generation failed for an untitled object under property {name!r}: "
                        f"{type(exc).__name__}: {exc!r}"[:300], finding=finding)
            continue
        by_source = {prop.source: prop for prop in root.properties.values()}
        problems = []
        if name not in by_source:
            problems.append(f"JSON name {name!r} is not recorded on any property")
        else:
            cls = by_source[name].element
            if not isinstance(cls, sut.ObjectMeta):
                problems.append("no class was generated for the object")
            else:
                cname = cls.__name__
                if f22_trigger(cname):
                    problems.append(f"class name {cname!r} is not usable")
                if cname in ("Root", by_source["sibling"].element.__name__):
                    problems.append(f"class name {cname!r} is not distinct")
                if expected is not None and not finding and cname != expected:
                    ctx.count("auto_titles.name_differs_from_transcription")
                try:
                    namespace = {}
                    exec(compile(sut.serialize_python(*elements), "<generated>", "exec"), namespace)  # pylint: disable=exec-used
                    if cname not in namespace:
                        problems.append(f"generated module does not define {cname}")
                except Exception as exc:  # pylint: disable=broad-except
                    problems.append(f"generated module unusable: {type(exc).__name__}: {exc!r}"[:200])
        if problems:
            ctx.witness("auto_title_unusable", case, "; ".join(problems), finding=finding)
        else:
            ctx.count("auto_titles.usable")


def f22_trigger(name):
    return (
        name == "" or not name.isidentifier() or keyword.iskeyword(name)
        or name in VOCABULARY
    )


def run_shard(ctx):
    from vlib import sut  # pylint: disable=import-outside-toplevel

    e2e_names = function_level(ctx, sut)
    for pos, name in enumerate(e2e_names):
        e2e_name(ctx, sut, name, "sampled", variant=pos % 4)
    pools(ctx, sut)
    sibling_sets(ctx, sut)
    title_sets(ctx, sut)
    auto_titles(ctx, sut)


def replay(case, ctx):
    from vlib import sut  # pylint: disable=import-outside-toplevel

    if "names" in case:
        ctx.params = dict(ctx.params, sibling_sets=0)
        global CONFUSABLE_FAMILIES  # pylint: disable=global-statement
        saved = CONFUSABLE_FAMILIES
        CONFUSABLE_FAMILIES = [case["names"]]
        try:
            ctx.params["sibling_sets"] = 1
            ctx.rng.sample = lambda fam, k: list(fam)
            ctx.rng.random = lambda: 1.0
            ctx.rng.randint = lambda a, b: b
            sibling_sets(ctx, sut)
        finally:
            CONFUSABLE_FAMILIES = saved
    elif "auto_title_name" in case:
        global AUTO_TITLE_NAMES  # pylint: disable=global-statement
        saved_names = AUTO_TITLE_NAMES
        AUTO_TITLE_NAMES = [case["auto_title_name"]] * (ctx.shard + 1)
        try:
            auto_titles(ctx, sut)
        finally:
            AUTO_TITLE_NAMES = saved_names
    elif "titles" in case:
        ctx.witness("replay_unsupported", case, "title sets replay: rerun the check with the same seed")
    elif "name" in case:
        mapper = sut.st_parser._parse_attribute_name  # pylint: disable=protected-access
        attr = mapper(case["name"])
        problems = name_problems(sut, case["name"], attr)
        ctx.evaluation()
        if problems:
            ctx.witness("bad_attribute_name", case, "; ".join(problems))
        e2e_name(ctx, sut, case["name"], "replay")
