"""C13 - elements always validate according to their current configuration."""
import copy

from vlib import gen_dsl
from vlib import gen_values as gv
from vlib.runner import canon

PROPERTY = "C13"
TECHNIQUE = (
    "runtime monitoring: state-machine monitor - every reconfiguration step applied to the live element "
    "is mirrored in a plain-data spec; after each step a fresh element is rebuilt from the spec and the "
    "live element's outcome class and result fingerprint are compared with it over a value batch "
    "(validate - reconfigure - validate, so anything memoised is warm)"
)
RULE = (
    "history = 3..40 steps over {assign a keyword attribute, assign items/contains/additional*/elements/"
    "element, properties[k]=..., del properties[k], properties={...}, flip prop.required, assign a class "
    "keyword, validate}; non-trivial = history with >= 2 reconfiguration steps each preceded and followed "
    "by validations; distinct by (initial spec, step list)"
)
ASSUMPTIONS = [
    "'a freshly constructed element with the same configuration' = gen_dsl.build of the mirrored spec",
    "reconfiguration goes through public attributes only (keyword attributes, properties dict, "
    "prop.required, composition .elements / Not .element, class attributes)",
]
STEP_KINDS = [
    "set_scalar_kw", "del_scalar_kw", "set_schema_kw", "prop_add", "prop_del", "prop_replace_all",
    "prop_flip_required", "prop_replace_element", "class_kw", "elements_assign", "set_default",
    "prop_replace_other_source", "prop_dict_api", "prop_source_assign", "prop_rekey",
]
REQUIRED_COUNTERS = ["histories.wide_model", "histories", "compare.calls", "compare.accepted", "compare.rejected", "triples", "compare.model_consulted",
                     "target.Object", "target.Element"] + [f"step.{k}" for k in STEP_KINDS]

ANCHORS = [
    "statham.schema.elements.base:Element.validators",
    "statham.schema.elements.meta:ObjectMeta.validators",
    "statham.schema.property:_PropertyDict.__setitem__",
    "statham.schema.validation:get_validators",
]


def plan(tier):
    if tier == "quick":
        return {"shards": 16, "histories": 110, "timeout": 900}
    return {"shards": 16, "histories": 5000, "timeout": 7200}


def walk(spec, path=(), out=None):
    """(path, node) for every defining node reachable without passing a ref/base."""
    out = [] if out is None else out
    if not isinstance(spec, dict) or spec.get("t") in (None, "ref"):
        return out
    out.append((path, spec))
    kind = spec["t"]
    if kind == "Array":
        items = spec["items"]
        if isinstance(items, list):
            for idx, sub in enumerate(items):
                walk(sub, path + (("items", idx),), out)
        else:
            walk(items, path + (("items", None),), out)
    if kind in ("AnyOf", "OneOf", "AllOf"):
        for idx, sub in enumerate(spec["elements"]):
            walk(sub, path + (("elements", idx),), out)
    if kind == "Not":
        walk(spec["element"], path + (("element", None),), out)
    kw = spec.get("kw", {})
    for key, val in kw.items():
        if key == "items":
            if isinstance(val, list):
                for idx, sub in enumerate(val):
                    walk(sub, path + (("kwitems", idx),), out)
            else:
                walk(val, path + (("kw", key),), out)
        elif key in ("contains", "propertyNames"):
            walk(val, path + (("kw", key),), out)
        elif key in ("additionalItems", "additionalProperties") and isinstance(val, dict):
            walk(val, path + (("kw", key),), out)
        elif key == "patternProperties":
            for pat, sub in val.items():
                walk(sub, path + (("kwdict", (key, pat)),), out)
        elif key == "dependencies":
            for name, sub in val.items():
                if isinstance(sub, dict):
                    walk(sub, path + (("kwdict", (key, name)),), out)
        elif key == "properties":
            for name, pspec in val.items():
                walk(pspec["el"], path + (("prop", name),), out)
    for name, pspec in (spec.get("props") or {}).items():
        walk(pspec["el"], path + (("prop", name),), out)
    return out


def live_at(root, path):
    obj = root
    for step, arg in path:
        if step == "items":
            obj = obj.items if arg is None else obj.items[arg]
        elif step == "kwitems":
            obj = obj.items[arg]
        elif step == "elements":
            obj = obj.elements[arg]
        elif step == "element":
            obj = obj.element
        elif step == "kw":
            obj = getattr(obj, arg)
        elif step == "kwdict":
            obj = getattr(obj, arg[0])[arg[1]]
        elif step == "prop":
            obj = obj.properties[arg].element
    return obj


SCALAR_KW = {
    "minimum": lambda rng: gv.dyadic(rng, small=True), "maximum": lambda rng: gv.dyadic(rng, small=True),
    "exclusiveMinimum": lambda rng: gv.dyadic(rng, small=True),
    "exclusiveMaximum": lambda rng: gv.dyadic(rng, small=True),
    "multipleOf": lambda rng: rng.choice([1, 2, 3, 0.5, 1.5]),
    "minLength": lambda rng: rng.choice([0, 1, 2, 3]), "maxLength": lambda rng: rng.choice([0, 1, 2, 4]),
    "pattern": lambda rng: rng.choice(sorted(gv.PATTERNS)),
    "minItems": lambda rng: rng.choice([0, 1, 2]), "maxItems": lambda rng: rng.choice([0, 1, 2, 3]),
    "uniqueItems": lambda rng: rng.random() < 0.7,
    "minProperties": lambda rng: rng.choice([0, 1, 2]), "maxProperties": lambda rng: rng.choice([0, 1, 2, 3]),
    "const": lambda rng: copy.deepcopy(rng.choice(gv.SCALARS + [[1], {"a": 1}])),
    "enum": lambda rng: [copy.deepcopy(x) for x in rng.sample(gv.SCALARS[:12], k=rng.randint(1, 3))],
    "required": lambda rng: rng.sample(["a", "b", "zz", "class", "foo"], k=rng.randint(1, 2)),
}
ELEMENT_KW = list(SCALAR_KW)
CLASS_SCALAR = ["minProperties", "maxProperties", "const", "enum", "required"]


def allowed_scalar(kind):
    if kind == "Element":
        return ELEMENT_KW
    if kind == "Object":
        return CLASS_SCALAR
    return [k for k in gen_dsl.KW.get(kind, []) if k in SCALAR_KW]


def small_spec(rng):
    gen = gen_dsl.Gen(rng, max_depth=1, classes=False, share=0.0, defaults=0.0)
    return gen.spec(1)


REFUSED = [0, 0]


def json_names_taken(holder, but=None):
    """JSON names already in use by the properties of one object (two properties under ONE JSON name is not a
    configuration any statement speaks about: a JSON object has one member per name)."""
    return {(spec_p.get("source") if spec_p.get("source") is not None else attr)
            for attr, spec_p in holder.items() if attr != but}


def apply_step(rng, spec, root, notpassed):
    """Pick and apply one reconfiguration to (spec, live tree).  Returns kind or None."""
    nodes = walk(spec)
    rng.shuffle(nodes)
    for path, node in nodes[:8]:
        kind = node["t"]
        live = live_at(root, path)
        choices = []
        scal = allowed_scalar(kind)
        if scal:
            choices += ["set_scalar_kw", "set_default"]
            if any(k in node.get("kw", {}) for k in scal):
                choices.append("del_scalar_kw")
        if kind in ("Element", "Array"):
            choices.append("set_schema_kw")
        if kind == "Object":
            choices += ["class_kw", "prop_add", "set_schema_kw"]
            if node.get("props"):
                choices += ["prop_del", "prop_flip_required", "prop_replace_element", "prop_replace_other_source",
                            "prop_dict_api", "prop_source_assign"]
        if kind == "Element":
            choices += ["prop_add", "prop_replace_all"]
            if node.get("kw", {}).get("properties"):
                choices += ["prop_del", "prop_flip_required", "prop_replace_element",
                            "prop_replace_other_source", "prop_dict_api", "prop_source_assign", "prop_rekey"]
        if kind in ("Element", "Object") and isinstance(node.get("kw", {}).get("patternProperties"), dict) \
                and isinstance(getattr(live, "patternProperties", None), dict):
            choices += ["pattern_dict_api"] * 2
        if kind in ("AnyOf", "OneOf", "AllOf", "Not"):
            choices.append("elements_assign")
        if not choices:
            continue
        step = rng.choice(choices)
        kw = node.setdefault("kw", {})
        holder_key = "props" if kind == "Object" else None
        if step == "set_scalar_kw":
            key = rng.choice(scal)
            val = SCALAR_KW[key](rng)
            kw[key] = copy.deepcopy(val)
            setattr(live, key, val)
        elif step == "set_default":
            val = copy.deepcopy(rng.choice(gv.SCALARS))
            kw["default"] = copy.deepcopy(val)
            live.default = val
        elif step == "del_scalar_kw":
            key = rng.choice([k for k in scal if k in kw])
            del kw[key]
            setattr(live, key, False if key == "uniqueItems" else notpassed)
        elif step == "set_schema_kw":
            if kind == "Array":
                key = rng.choice(["items", "contains", "additionalItems"])
            elif kind == "Object":
                key = rng.choice(["additionalProperties", "propertyNames", "patternProperties"])
            else:
                key = rng.choice(["items", "contains", "additionalItems", "additionalProperties",
                                  "propertyNames", "patternProperties"])
            if key in ("additionalItems", "additionalProperties") and rng.random() < 0.5:
                val_spec = rng.random() < 0.5
                live_val = val_spec
            elif key == "patternProperties":
                val_spec = {rng.choice(sorted(gv.PATTERNS)): small_spec(rng)}
                live_val = {pat: gen_dsl.build(sub) for pat, sub in val_spec.items()}
            elif key == "items" and rng.random() < 0.4:
                val_spec = [small_spec(rng) for _ in range(rng.randint(1, 2))]
                live_val = [gen_dsl.build(sub) for sub in val_spec]
            else:
                val_spec = small_spec(rng)
                live_val = gen_dsl.build(val_spec)
            if kind == "Array" and key == "items":
                node["items"] = val_spec
            else:
                kw[key] = val_spec
            setattr(live, key, live_val)
        elif step == "pattern_dict_api":
            # the mapping under `patternProperties` is edited through every part of the dict API, in place
            held_spec, held_live = kw["patternProperties"], live.patternProperties
            pattern = rng.choice(sorted(gv.PATTERNS))
            sub = small_spec(rng)
            op = rng.choice(["ior", "setdefault", "popitem", "update", "pop", "setitem", "delitem", "clear"])
            if op == "ior":
                held_live |= {pattern: gen_dsl.build(sub)}
                held_spec[pattern] = sub
            elif op == "setdefault":
                held_live.setdefault(pattern, gen_dsl.build(sub))
                held_spec.setdefault(pattern, sub)
            elif op == "popitem":
                if not held_live:
                    continue
                gone, _ = held_live.popitem()
                held_spec.pop(gone, None)
            elif op == "update":
                held_live.update({pattern: gen_dsl.build(sub)})
                held_spec[pattern] = sub
            elif op == "pop":
                if not held_live:
                    continue
                gone = rng.choice(sorted(held_live))
                held_live.pop(gone)
                held_spec.pop(gone, None)
            elif op == "setitem":
                held_live[pattern] = gen_dsl.build(sub)
                held_spec[pattern] = sub
            elif op == "delitem":
                if not held_live:
                    continue
                gone = rng.choice(sorted(held_live))
                del held_live[gone]
                held_spec.pop(gone, None)
            else:
                held_live.clear()
                held_spec.clear()
            if live.patternProperties is not held_live:
                live.patternProperties = held_live
        elif step == "class_kw":
            key = rng.choice(CLASS_SCALAR + ["additionalProperties"])
            if key == "additionalProperties":
                val = rng.random() < 0.5
            else:
                val = SCALAR_KW[key](rng)
            kw[key] = copy.deepcopy(val)
            setattr(live, key, val)
        elif step == "prop_add":
            if kind == "Element" and not kw.get("properties"):
                continue_spec = {}
                name = rng.choice(gen_dsl.PY_NAMES)
                pspec = {"el": small_spec(rng), "required": rng.random() < 0.5, "source": None}
                continue_spec[name] = pspec
                kw["properties"] = continue_spec
                from vlib import sut  # pylint: disable=import-outside-toplevel

                live.properties = {
                    name: sut.Property(gen_dsl.build(pspec["el"]), required=pspec["required"])
                }
                return "prop_replace_all"
            holder = node["props"] if holder_key else kw["properties"]
            name = rng.choice(gen_dsl.PY_NAMES + list(gen_dsl.RENAMES))
            pspec = {"el": small_spec(rng), "required": rng.random() < 0.5,
                     "source": gen_dsl.RENAMES.get(name)}
            if (pspec["source"] if pspec["source"] is not None else name) in json_names_taken(holder, but=name):
                # (a property moved to another attribute earlier keeps its JSON name: do not declare that
                # name a second time under the attribute it came from)
                continue
            holder[name] = pspec
            from vlib import sut  # pylint: disable=import-outside-toplevel

            live.properties[name] = sut.Property(
                gen_dsl.build(pspec["el"]), required=pspec["required"], source=pspec["source"])
        elif step == "prop_replace_all":
            from vlib import sut  # pylint: disable=import-outside-toplevel

            new = {}
            for name in rng.sample(gen_dsl.PY_NAMES, k=rng.randint(0, 2)):
                new[name] = {"el": small_spec(rng), "required": rng.random() < 0.5, "source": None}
            if new:
                kw_before = copy.deepcopy(kw)
                kw["properties"] = new
                objects = {
                    name: sut.Property(gen_dsl.build(p["el"]), required=p["required"]) for name, p in new.items()
                }
                if rng.random() < 0.35:
                    # a first attempt that the library refuses (one value is not a Property), holding the very
                    # same Property objects under other names: a refused step must leave no trace on them
                    try:
                        live.properties = {**{"first_" + name: prop for name, prop in objects.items()},
                                           "not_a_property": rng.choice([5, "x", None])}
                        REFUSED[1] += 1
                    except Exception:  # pylint: disable=broad-except
                        REFUSED[0] += 1
                        if rng.random() < 0.4:
                            # ... and the refusal is the end of it: the element is configured as before
                            kw.clear()
                            kw.update(kw_before)
                            return "prop_replace_refused"
                live.properties = objects
            else:
                kw.pop("properties", None)
                live.properties = notpassed
        elif step == "elements_assign":
            pass
        else:
            holder = node["props"] if holder_key else kw["properties"]
            name = rng.choice(sorted(holder))
            if step == "prop_del":
                del holder[name]
                del live.properties[name]
                if not holder and not holder_key:
                    # an empty properties dict is still "no declared property"
                    pass
            elif step == "prop_flip_required":
                holder[name] = dict(holder[name], required=not holder[name]["required"])
                live.properties[name].required = not live.properties[name].required
            elif step == "prop_replace_element":
                new_el = small_spec(rng)
                holder[name] = dict(holder[name], el=new_el)
                live.properties[name].element = gen_dsl.build(new_el)
            elif step == "prop_dict_api":
                # the properties mapping is a dict: its whole API is a way to add / replace / remove
                from vlib import sut  # pylint: disable=import-outside-toplevel

                api = rng.choice(["pop", "popitem", "update", "setdefault", "clear"])
                if api == "pop":
                    del holder[name]
                    live.properties.pop(name)
                elif api == "popitem":
                    last = list(holder)[-1]
                    del holder[last]
                    live.properties.popitem()
                elif api == "clear":
                    holder.clear()
                    live.properties.clear()
                else:
                    new_name = rng.choice(gen_dsl.PY_NAMES)
                    pspec = {"el": small_spec(rng), "required": rng.random() < 0.5, "source": None}
                    prop = sut.Property(gen_dsl.build(pspec["el"]), required=pspec["required"])
                    if api == "update":
                        holder[new_name] = pspec
                        live.properties.update({new_name: prop})
                        # dict.update bypasses __setitem__; half of the time the caller binds the property
                        # as the setter would, half of the time the property stays as constructed (every
                        # validation binds the properties it finds, so both must behave like a fresh element)
                        if rng.random() < 0.5:
                            prop.bind(name=new_name, parent=live)
                    else:
                        if new_name not in holder:
                            holder[new_name] = pspec
                            live.properties.setdefault(new_name, prop)
                            if rng.random() < 0.5:
                                prop.bind(name=new_name, parent=live)
            elif step == "prop_rekey":
                # the same Property object moved to another attribute name: it keeps the JSON name it had
                new_name = rng.choice([n for n in gen_dsl.PY_NAMES + ["moved", "moved2"] if n not in holder] or ["moved3"])
                pspec = holder.pop(name)
                json_name = pspec["source"] if pspec.get("source") is not None else name
                holder[new_name] = dict(pspec, source=json_name)
                live.properties[new_name] = live.properties.pop(name)
            elif step == "prop_source_assign":
                new_source = rng.choice([name + "_renamed", "SRC", name])
                taken = {(spec_p.get("source") if spec_p.get("source") is not None else other)
                         for other, spec_p in holder.items() if other != name}
                if new_source in taken:
                    # two properties under ONE JSON name is not a configuration the statement speaks about
                    # (a JSON object has one member per name): keep the names distinct
                    new_source = name + "_renamed"
                    if new_source in taken:
                        continue
                holder[name] = dict(holder[name], source=new_source if new_source != name else None)
                live.properties[name].source = new_source
            elif step == "prop_replace_other_source":
                # a new Property object under the SAME attribute name but another JSON name
                from vlib import sut  # pylint: disable=import-outside-toplevel

                old_source = holder[name].get("source")
                new_source = rng.choice([None, name + "_json", "SRC_" + name])
                if new_source == old_source:
                    new_source = name + "_other"
                if (new_source if new_source is not None else name) in json_names_taken(holder, but=name):
                    continue
                pspec = {"el": small_spec(rng), "required": rng.random() < 0.5, "source": new_source}
                holder[name] = pspec
                live.properties[name] = sut.Property(
                    gen_dsl.build(pspec["el"]), required=pspec["required"], source=new_source)
        if step == "elements_assign":
            if kind == "Not":
                node["element"] = small_spec(rng)
                live.element = gen_dsl.build(node["element"])
            else:
                subs = [small_spec(rng) for _ in range(rng.randint(1, 3))]
                if rng.random() < 0.5 and node["elements"]:
                    subs = [node["elements"][0]] + subs[1:]
                    first_live = live.elements[0]
                    node["elements"] = subs
                    live.elements = [first_live] + [gen_dsl.build(sub) for sub in subs[1:]]
                else:
                    node["elements"] = subs
                    live.elements = [gen_dsl.build(sub) for sub in subs]
        return step
    return None


def dangling(spec):
    index = gen_dsl.index_specs(spec)
    refs = []

    def collect(node):
        if isinstance(node, dict):
            if node.get("t") == "ref":
                refs.append(node["id"])
            for val in node.values():
                collect(val)
        elif isinstance(node, list):
            for val in node:
                collect(val)

    collect(spec)
    return any(ref not in index for ref in refs)


def model_disagrees_ok(ctx, schema, value, outcome, history, label):
    """A fresh twin built in the same process shares any process-wide state with the live element, so
    the current configuration is also judged absolutely: the Draft-6 model of the mirrored spec."""
    from vlib import refmodel  # pylint: disable=import-outside-toplevel
    from vlib import sut  # pylint: disable=import-outside-toplevel

    try:
        allowed = refmodel.verdicts(schema, value, schema, curated=gv.CURATED)
    except Exception:  # pylint: disable=broad-except
        return True
    ctx.count("compare.model_consulted")
    if sut.accepted(outcome) in allowed or outcome not in ("ok", "ValidationError", "TypeError"):
        return True
    # decide again, on deep copies: a witness that does not survive that is the harness's own doing
    again = refmodel.verdicts(copy.deepcopy(schema), copy.deepcopy(value), copy.deepcopy(schema), curated=gv.CURATED)
    if sut.accepted(outcome) in again:
        ctx.count("compare.model_verdict_not_reproducible")
        return True
    ctx.witness("verdict_not_of_current_configuration",
                {"spec0": history["spec0"], "steps": history["steps"], "value": value, "schema_judged": schema},
                f"after {label}: live element (and a fresh twin) -> {outcome}, but the current configuration "
                f"{str(schema)[:300]} means {sorted(allowed)}")
    return False


def compare(ctx, sut, fpm, live, spec, values, history, label):
    try:
        fresh = gen_dsl.build(spec)
    except Exception as exc:  # pylint: disable=broad-except
        ctx.count("fresh_build_failed." + type(exc).__name__)
        return False
    try:
        model_schema = gen_dsl.to_schema(spec)
        if not isinstance(model_schema, dict):
            model_schema = None
    except Exception:  # pylint: disable=broad-except
        model_schema = None
    ok = True
    for value in values:
        ctx.count("compare.calls")
        ctx.evaluation()
        out_live, res_live, exc_live = sut.call(live, copy.deepcopy(value))
        out_fresh, res_fresh, _ = sut.call(fresh, copy.deepcopy(value))
        ctx.count("compare.accepted" if out_live == "ok" else "compare.rejected")
        same_class = sut.accepted(out_live) == sut.accepted(out_fresh) and (
            out_live == out_fresh or (sut.rejected(out_live) and sut.rejected(out_fresh)))
        if not same_class:
            ctx.witness("stale_verdict", {"spec0": history["spec0"], "steps": history["steps"], "value": value},
                        f"after {label}: live element -> {out_live} ({exc_live!r}), fresh element with the "
                        f"same configuration -> {out_fresh}"[:600])
            ok = False
        elif model_schema is not None and not model_disagrees_ok(ctx, model_schema, value, out_live, history, label):
            ok = False
        elif out_live == "ok" and fpm.fp_result(res_live) != fpm.fp_result(res_fresh):
            ctx.witness("stale_result", {"spec0": history["spec0"], "steps": history["steps"], "value": value},
                        f"after {label}: results differ: {str(fpm.fp_result(res_live))[:250]} vs fresh "
                        f"{str(fpm.fp_result(res_fresh))[:250]}")
            ok = False
    return ok


def run_history(ctx, sut, fpm, rng, spec, nsteps):
    spec = copy.deepcopy(spec)
    history = {"spec0": copy.deepcopy(spec), "steps": []}
    try:
        live = gen_dsl.build(spec)
    except Exception as exc:  # pylint: disable=broad-except
        ctx.count("build_failed." + type(exc).__name__)
        return
    ctx.count("histories")
    ctx.count("target." + spec["t"])
    notpassed = sut.NotPassed()
    carried = []
    reconfigs = 0
    for step_no in range(nsteps):
        schema = gen_dsl.to_schema(spec)
        values = gv.batch_for_schema(rng, schema, schema, count=6) if isinstance(schema, dict) else \
            [gv.random_value(rng) for _ in range(4)]
        values += carried[-4:]
        if not compare(ctx, sut, fpm, live, spec, values, history, f"step {step_no}"):
            return
        carried += values[:2]
        state = rng.getstate()
        before = copy.deepcopy(spec)
        try:
            kind = apply_step(rng, spec, live, notpassed)
        except Exception as exc:  # pylint: disable=broad-except
            # the DSL refused the reconfiguration (e.g. reserved name): not a step
            ctx.count("step_refused." + type(exc).__name__)
            spec = before
            try:
                live = gen_dsl.build(spec)
            except Exception:  # pylint: disable=broad-except
                return
            continue
        if REFUSED[0] or REFUSED[1]:
            ctx.count("step.refused_first_attempt_then_reuse", REFUSED[0])
            ctx.count("step.bad_first_attempt_not_refused", REFUSED[1])
            REFUSED[0] = REFUSED[1] = 0
        if kind is None:
            continue
        if dangling(spec):
            # the step removed the defining occurrence of a shared node that is
            # still referenced elsewhere: not expressible in the mirror; undo.
            ctx.count("step_undone.dangling_shared_node")
            spec = before
            try:
                live = gen_dsl.build(spec)
            except Exception:  # pylint: disable=broad-except
                return
            continue
        reconfigs += 1
        ctx.count("step." + kind)
        ctx.count("triples")
        history["steps"].append({"kind": kind, "rng_state_hash": hash(state) & 0xFFFF,
                                 "spec_after": copy.deepcopy(spec)})
        if len(history["steps"]) > 6:
            history["steps"] = history["steps"][-6:]
    schema = gen_dsl.to_schema(spec)
    values = (gv.batch_for_schema(rng, schema, schema, count=6) if isinstance(schema, dict) else []) + carried[-6:]
    compare(ctx, sut, fpm, live, spec, values, history, "the last step")
    if reconfigs >= 2:
        ctx.nontrivial(canon([history["spec0"], [s["kind"] for s in history["steps"]], reconfigs]))
    ctx.sample({"spec0": history["spec0"], "steps": [s["kind"] for s in history["steps"]]}, every=40)


def run_shard(ctx):
    from vlib import fingerprint as fpm  # pylint: disable=import-outside-toplevel
    from vlib import sut  # pylint: disable=import-outside-toplevel

    rng = ctx.rng
    for idx in range(ctx.params["histories"]):
        gen = gen_dsl.Gen(rng, max_depth=2, share=0.1, inheritance=0.0)
        spec = gen.klass(2) if idx % 2 else gen.spec(2)
        if spec["t"] in ("ref", "Nothing"):
            continue
        if idx % 8 == 5 and isinstance(spec.get("props"), dict):
            # a WIDE model (a library may index, cache or batch past some number of properties - and the
            # less common ways of editing the properties mapping then have to keep that in step)
            for number in range(rng.choice([33, 40, 70])):
                spec["props"][f"w{number:02d}"] = {"el": {"t": rng.choice(["Integer", "String", "Boolean"]), "kw": {}},
                                                   "required": False, "source": None}
            ctx.count("histories.wide_model")
        run_history(ctx, sut, fpm, rng, spec, rng.randint(3, 40) if idx % 10 == 0 else rng.randint(3, 12))


def replay(case, ctx):
    """Replays the recorded configurations: for each recorded step the live
    element is taken through spec0 -> spec_after transitions by rebuilding the
    recorded specs, then compared on the recorded value."""
    from vlib import fingerprint as fpm  # pylint: disable=import-outside-toplevel
    from vlib import sut  # pylint: disable=import-outside-toplevel

    # A faithful replay needs the same step choices: re-run the whole history
    # generator is not possible from the case alone, so the replay checks the
    # final recorded configuration against a fresh build on the recorded value
    # after warming the element with the earlier configurations.
    spec0 = case["spec0"]
    live = gen_dsl.build(spec0)
    value = case.get("value")
    sut.call(live, copy.deepcopy(value))
    last = case["steps"][-1]["spec_after"] if case.get("steps") else spec0
    history = {"spec0": spec0, "steps": case.get("steps", [])}
    ctx.count("replay.note_only_final_configuration_checked")
    compare(ctx, sut, fpm, gen_dsl.build(last), last, [value], history, "replay")
