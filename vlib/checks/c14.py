"""C14 - concurrent validation against shared models equals sequential validation."""
import copy
import json
import os
import time
import itertools
import sys
import threading

from vlib import gen_dsl
from vlib import gen_values as gv
from vlib.checks.c08 import shared_prop_ids
from vlib.runner import canon

PROPERTY = "C14"
TECHNIQUE = (
    "runtime monitoring: sequential-baseline oracle under forced pre-emption - N threads validate their "
    "own value lists against ONE shared element tree behind a barrier with sys.setswitchinterval(1e-6) "
    "and a sys.monitoring LINE-event yield injector on statham's code; every per-thread outcome/result "
    "is compared with the sequential run, and the tree fingerprint at quiescence with the one before"
)
RULE = (
    "run = (shared tree, 2..8 threads, 10..30 calls each, yield probability 0.02..0.3); evidence counts "
    "overlapping call pairs from a logical clock, injected yields and distinct interleaving signatures; "
    "non-trivial = a run with >= 1 overlapping pair of calls from different threads on a tree with >= 3 "
    "nodes; distinct by (spec, value lists, thread count)"
)
ASSUMPTIONS = [
    "schedules are sampled, not enumerated: CPython switches threads at bytecode boundaries, the "
    "injector yields at statement-start lines of statham's own code",
    "one Property object under two different names is known finding F25; only trees with that structural "
    "trigger can be attributed to it, and most trees (>= 85%) are built without it",
]
REQUIRED_COUNTERS = ["runs", "calls.concurrent", "overlapping_pairs", "yields_injected", "lines_seen",
                     "threads.2", "threads.4", "threads.8", "shape.shared_node", "shape.t.Object",
                     "trees.parsed", "quiescence.tree_unchanged", "calls.accepted", "calls.rejected", "runs.cold_tree", "cold_process.calls", "format_runs.calls", "numeric_runs.calls", "default_runs.calls", "size_runs.calls"]

ANCHORS = [
    "statham.schema.property:_Property.bind",
    "statham.schema.property:_Property.evolve",
    "statham.schema.elements.properties:Properties.property",
    "statham.schema.elements.items:Items.property",
    "statham.schema.elements.base:Element.__call__",
    "statham.schema.validation.object:Required.from_element",
]


def plan(tier):
    if tier == "quick":
        return {"shards": 16, "runs": 16, "calls": 16, "timeout": 900}
    return {"shards": 16, "runs": 900, "calls": 30, "timeout": 7200}


def sequential(sut, fpm, element, values):
    out = []
    for value in values:
        outcome, result, _ = sut.call(element, copy.deepcopy(value))
        out.append((outcome, fpm.fp_result(result) if outcome == "ok" else None))
    return out


def concurrent(sut, fpm, element, lists, injector, probability):
    clock = itertools.count()
    records = [[] for _ in lists]
    barrier = threading.Barrier(len(lists))
    errors = []

    def work(tid):
        try:
            barrier.wait(timeout=30)
            for value in lists[tid]:
                start = next(clock)
                outcome, result, _ = sut.call(element, copy.deepcopy(value))
                fp = fpm.fp_result(result) if outcome == "ok" else None
                records[tid].append((start, next(clock), outcome, fp))
        except BaseException as exc:  # pylint: disable=broad-except
            errors.append(repr(exc))

    threads = [threading.Thread(target=work, args=(tid,), name=f"w{tid}") for tid in range(len(lists))]
    injector.probability = probability
    old = sys.getswitchinterval()
    sys.setswitchinterval(1e-6)
    try:
        for thread in threads:
            thread.start()
        for thread in threads:
            thread.join(timeout=120)
    finally:
        sys.setswitchinterval(old)
        injector.probability = 0.0
    stuck = [t.name for t in threads if t.is_alive()]
    return records, errors, stuck


def overlap_stats(records):
    """Number of call pairs from different threads whose [start, end] intervals intersect,
    and a signature of the interleaving (thread order of call starts)."""
    events = []
    for tid, recs in enumerate(records):
        for start, end, _o, _f in recs:
            events.append((start, end, tid))
    events.sort()
    pairs = 0
    active = []
    for start, end, tid in events:
        active = [(e, t) for e, t in active if e > start]
        pairs += sum(1 for _e, t in active if t != tid)
        active.append((end, tid))
    signature = hash(tuple(tid for _s, _e, tid in events))
    return pairs, signature


def one_run(ctx, sut, fpm, monitors, injector, rng, idx):
    use_f25 = idx % 8 == 0
    parsed = idx % 4 == 3
    if parsed:
        from vlib import gen_schemas as gs  # pylint: disable=import-outside-toplevel
        from vlib import refmodel  # pylint: disable=import-outside-toplevel

        schema, _tag = gs.any_schema(rng)
        if isinstance(schema, dict) and len(json.dumps(schema, default=repr)) > 2500:
            # the scale templates (hundreds of members) are left to the sequential checks: under the line-level
            # yield injector everything that walks such a tree (the harness's own metaschema check included,
            # and every rejection, whose message quotes the tree) takes minutes
            ctx.count("trees.too_large_for_injected_runs")
            return
        if not isinstance(schema, dict) or not refmodel.metaschema_valid(schema):
            return
        try:
            element = sut.parse_direct(schema)
        except Exception:  # pylint: disable=broad-except
            return
        spec = None
        ctx.count("trees.parsed")
        nodes = gs.size_of(schema)[0]
    else:
        gen = gen_dsl.Gen(rng, max_depth=2, share=0.35, shared_props=0.6 if use_f25 else 0.0,
                          explicit_required=0.5, defaults=0.3, inheritance=0.3)
        spec = gen.klass(2) if idx % 2 else gen.spec(2)
        if spec["t"] in ("ref", "Nothing"):
            return
        schema = gen_dsl.to_schema(spec)
        try:
            element = gen_dsl.build(spec)
        except Exception as exc:  # pylint: disable=broad-except
            ctx.count("build_failed." + type(exc).__name__)
            return
        for shape in gen_dsl.shapes(spec):
            ctx.count("shape." + shape)
        nodes = gen_dsl.count_nodes(spec)
    trigger = bool(spec is not None and shared_prop_ids(spec))
    if trigger:
        ctx.count("shape.property_under_two_names")
    nthreads = rng.choice([2, 4, 4, 8])
    ncalls = rng.randint(10, ctx.params["calls"])
    pool = gv.batch_for_schema(rng, schema, schema, count=12)
    # (large values have their own scenario, `size_runs`: under the line-level injector a list of hundreds of
    # members in every call of every thread turns one run into minutes)
    light = [value for value in pool if len(repr(value)) <= 1500]
    if len(light) < len(pool):
        ctx.count("values.too_large_for_injected_runs", len(pool) - len(light))
    pool = light or [None, 1, "a", {}, []]
    lists = [[copy.deepcopy(rng.choice(pool)) for _ in range(ncalls)] for _ in range(nthreads)]
    case = {"spec": spec, "schema": None if spec is not None else schema, "threads": nthreads,
            "lists": [lst[:6] for lst in lists]}
    cold = idx % 2 == 0
    lines_at_start = injector.lines
    if cold:
        # first-use races: the threads meet a tree nobody has validated against yet; the sequential
        # baseline ("as it would when run alone") comes from an independently built twin
        try:
            twin = gen_dsl.build(spec) if spec is not None else sut.parse_direct(schema)
        except Exception:  # pylint: disable=broad-except
            return
        ctx.count("runs.cold_tree")
        fp_before = fpm.fp_config(element)
        base_before = []
        for lst in lists:
            base_before.append(sequential(sut, fpm, twin, lst))
            if injector.lines - lines_at_start > 600000:
                break
        fp_mid = fp_before
    else:
        fp_before = fpm.fp_config(element)
        base_before = []
        for lst in lists:
            base_before.append(sequential(sut, fpm, element, lst))
            if injector.lines - lines_at_start > 600000:
                break
        fp_mid = fpm.fp_config(element)
    if injector.lines - lines_at_start > 600000:
        # the sequential baseline alone executed this many lines: the same under threads and yields is beyond the
        # budget of a run (decided on executed lines, not on time)
        ctx.count("runs.too_heavy_for_injected_run")
        return
    probability = rng.choice([0.02, 0.05, 0.1, 0.3])
    lines0, yields0 = injector.lines, injector.yields
    records, errors, stuck = concurrent(sut, fpm, element, lists, injector, probability)
    ctx.count("lines_seen", injector.lines - lines0)
    ctx.count("yields_injected", injector.yields - yields0)
    if stuck:
        ctx.inconclusive_reason(f"threads {stuck} did not finish within the 120 s watchdog")
        return
    if errors:
        ctx.inconclusive_reason("harness thread error: " + errors[0][:300])
        return
    ctx.count("runs")
    ctx.count(f"threads.{nthreads}")
    pairs, signature = overlap_stats(records)
    ctx.count("overlapping_pairs", pairs)
    ctx.signatures.add(signature)
    base_after = [sequential(sut, fpm, element, lst) for lst in lists]
    fp_after = fpm.fp_config(element)
    finding = "F25" if trigger else None
    if base_before != base_after or fp_before != fp_mid:
        # not schedule dependent: the sequential run itself is not repeatable / pure
        ctx.witness("sequential_baseline_unstable", case,
                    "sequential validation before and after the concurrent phase disagree, or the "
                    "sequential phase changed the tree (purity clause)", finding=finding)
        return
    for tid, recs in enumerate(records):
        for pos, (_s, _e, outcome, fp) in enumerate(recs):
            ctx.count("calls.concurrent")
            ctx.evaluation()
            ctx.count("calls.accepted" if outcome == "ok" else "calls.rejected")
            want = base_before[tid][pos]
            if sut.accepted(outcome) != sut.accepted(want[0]) or (outcome == "ok" and fp != want[1]):
                ctx.witness(
                    "concurrent_differs_from_sequential",
                    {**case, "thread": tid, "position": pos, "value": lists[tid][pos],
                     "yield_probability": probability},
                    f"thread {tid} call {pos}: concurrent -> {outcome} {str(fp)[:200]}; sequential -> "
                    f"{want[0]} {str(want[1])[:200]}", finding=finding)
                return
    if fp_after != fp_before:
        ctx.witness("tree_changed_at_quiescence", case,
                    "tree fingerprint after the concurrent phase differs: "
                    + str(monitors.first_difference(fp_before, fp_after)), finding=finding)
        return
    ctx.count("quiescence.tree_unchanged")
    if pairs >= 1 and nodes >= 3:
        ctx.nontrivial(canon([spec or schema, [lst[:4] for lst in lists], nthreads]))
    ctx.sample({"spec": spec, "threads": nthreads, "calls_per_thread": ncalls, "overlapping_pairs": pairs,
                "yield_probability": probability}, every=10)


def cold_process(ctx, sut, fpm):
    """The very first validations of this (fresh) process happen concurrently: process-level lazy
    initialisation (format checkers, imports, registries) must not be observable.  Runs before anything
    else in the shard; the sequential reference is taken afterwards from the same, now warm, objects."""
    doc = {"type": "object", "title": "Cold",
           "properties": {"when": {"type": "string", "format": "date-time"},
                          "id": {"type": "string", "format": "uuid"},
                          "n": {"type": "number", "multipleOf": 0.5}},
           "required": ["when"]}
    element = sut.parse_direct(doc)
    values = [{"when": "not a date!!"}, {"when": "1990-12-31T23:59:59Z"}, {"when": "zz-zz", "id": "!!"},
              {"when": "2020-02-29T12:00:00+01:00", "id": "123e4567-e89b-12d3-a456-426614174000", "n": 1.5},
              {"when": "", "n": 0.3}, {"when": "2001-01-01t00:00:00.123z", "id": "zz"}]
    nthreads = 8
    barrier = threading.Barrier(nthreads)
    records = [[] for _ in range(nthreads)]

    def work(tid):
        barrier.wait(timeout=30)
        for value in values[tid % len(values):] + values[: tid % len(values)]:
            outcome, result, _ = sut.call(element, copy.deepcopy(value))
            records[tid].append((canon(value), outcome, fpm.fp_result(result) if outcome == "ok" else None))

    threads = [threading.Thread(target=work, args=(tid,)) for tid in range(nthreads)]
    old = sys.getswitchinterval()
    sys.setswitchinterval(1e-6)
    try:
        for thread in threads:
            thread.start()
        for thread in threads:
            thread.join(timeout=120)
    finally:
        sys.setswitchinterval(old)
    if any(t.is_alive() for t in threads):
        ctx.inconclusive_reason("cold-process threads did not finish within 120 s")
        return
    reference = {}
    for value in values:
        outcome, result, _ = sut.call(element, copy.deepcopy(value))
        reference[canon(value)] = (outcome, fpm.fp_result(result) if outcome == "ok" else None)
    ctx.count("cold_process.calls", sum(len(r) for r in records))
    for tid, recs in enumerate(records):
        for key, outcome, fp in recs:
            ctx.evaluation()
            want = reference[key]
            if sut.accepted(outcome) != sut.accepted(want[0]) or (outcome == "ok" and fp != want[1]):
                ctx.witness("concurrent_differs_from_sequential",
                            {"schema": doc, "threads": nthreads, "lists": [values], "cold_process": True,
                             "value": key},
                            f"first validations of a fresh process, thread {tid}: concurrent -> {outcome}; "
                            f"alone -> {want[0]}")
                return


def format_runs(ctx, sut, fpm, injector):
    """Threads validating strings under the built-in formats at the same time (the checkers call into
    third-party code with its own process-wide state: warnings filters, locale, caches)."""
    rng = ctx.rng
    pool = ["1990-12-31T23:59:59Z", "2020-02-29T12:00:00+01:00", "not a date!!", "zz-zz", "", "12:00 FOO",
            "2020-01-01 12:00 XYZT", "10:15 BRST", "Sat, 12 Jan 2019 10:00:00 QQQ", "2020-01-01T00:00:00 ABCD",
            "123e4567-e89b-12d3-a456-426614174000", "5 PM", "tomorrow", "2001-01-01t00:00:00.123z", "1 2 3 UVW"]
    element = sut.Element(properties={"when": sut.Property(sut.String(format="date-time")),
                                      "id": sut.Property(sut.String(format="uuid"))})
    for run_no in range(6):
        nthreads = rng.choice([4, 8])
        lists = [[{"when": rng.choice(pool), "id": rng.choice(pool)} for _ in range(12)] for _ in range(nthreads)]
        import warnings  # pylint: disable=import-outside-toplevel

        with warnings.catch_warnings():
            warnings.simplefilter("ignore")
            base = [sequential(sut, fpm, element, lst) for lst in lists]
            records, errors, stuck = concurrent(sut, fpm, element, lists, injector, [0.05, 0.3, 0.15][run_no % 3])
            again = [sequential(sut, fpm, element, lst) for lst in lists]
        if stuck or errors:
            ctx.inconclusive_reason("format run: threads stuck or harness error " + str(errors[:1]))
            return
        ctx.count("format_runs")
        if base != again:
            ctx.witness("sequential_baseline_unstable", {"lists": [lst[:6] for lst in lists], "format_run": True},
                        "sequential validation of format strings differs before and after the concurrent phase")
            return
        for tid, recs in enumerate(records):
            for pos, (_s, _e, outcome, fp) in enumerate(recs):
                ctx.evaluation()
                ctx.count("format_runs.calls")
                want = base[tid][pos]
                if sut.accepted(outcome) != sut.accepted(want[0]) or (outcome == "ok" and fp != want[1]):
                    ctx.witness("concurrent_differs_from_sequential",
                                {"lists": [lst[:6] for lst in lists], "threads": nthreads, "format_run": True,
                                 "value": lists[tid][pos]},
                                f"thread {tid} call {pos}: concurrent -> {outcome}; alone -> {want[0]}")
                    return


def numeric_runs(ctx, sut, fpm, injector):
    """Threads validating numbers at the edges of the float range (where validators fall back to exact
    or decimal arithmetic, whose settings - e.g. the decimal context - are per thread)."""
    rng = ctx.rng
    pool = [1e308, -1e308, 1.7976931348623157e308, 1e300, 2.0 ** 1000, 5e-324, 10 ** 400, 2 ** 53 + 1, 10 ** 30 + 1,
            0.5, 3, 7.5, 1e22, 0.1, 123456789.125]
    element = sut.Element(properties={
        "half": sut.Property(sut.Number(multipleOf=0.5)), "tenth": sut.Property(sut.Element(multipleOf=0.1)),
        "odd": sut.Property(sut.Number(multipleOf=1.5, maximum=10 ** 400)),
        "tiny": sut.Property(sut.Element(multipleOf=5e-324)), "seven": sut.Property(sut.Integer(multipleOf=7))})
    names = ["half", "tenth", "odd", "tiny", "seven"]
    for _ in range(2):
        nthreads = rng.choice([3, 6])
        lists = [[{rng.choice(names): rng.choice(pool), rng.choice(names): rng.choice(pool)} for _ in range(14)]
                 for _ in range(nthreads)]
        base = [sequential(sut, fpm, element, lst) for lst in lists]
        records, errors, stuck = concurrent(sut, fpm, element, lists, injector, 0.05)
        again = [sequential(sut, fpm, element, lst) for lst in lists]
        if stuck or errors:
            ctx.inconclusive_reason("numeric run: threads stuck or harness error " + str(errors[:1]))
            return
        ctx.count("numeric_runs")
        if base != again:
            ctx.witness("sequential_baseline_unstable", {"numeric_run": True, "lists": [lst[:4] for lst in lists]},
                        "sequential validation of extreme numbers differs before and after the concurrent phase")
            return
        for tid, recs in enumerate(records):
            for pos, (_s, _e, outcome, fp) in enumerate(recs):
                ctx.evaluation()
                ctx.count("numeric_runs.calls")
                want = base[tid][pos]
                if outcome != want[0] or (outcome == "ok" and fp != want[1]):
                    ctx.witness("concurrent_differs_from_sequential",
                                {"numeric_run": True, "threads": nthreads, "value": lists[tid][pos]},
                                f"thread {tid} call {pos}: concurrent -> {outcome}; alone (main thread) -> {want[0]}")
                    return


def huge_int_runs(ctx, sut, fpm, injector):
    """Threads whose values are REJECTED and involve integers beyond the interpreter's int-to-str limit, in the
    value or in the schema (under an untyped element, whose rendering in the message is long): whatever the
    library does to report them, it does it in several threads at once."""
    rng = ctx.rng
    huge = 10 ** 5000 + 7
    element = sut.Element(properties={
        "n": sut.Property(sut.Integer(maximum=5)),
        "c": sut.Property(sut.Element(const=huge)),
        "e": sut.Property(sut.Element(enum=[huge, 1], minimum=0)),
        "a": sut.Property(sut.AnyOf(sut.Element(const=huge), sut.String())),
        "x": sut.Property(sut.Not(sut.Element(const=huge))),
    })
    pool = [{"n": huge}, {"c": huge + 1}, {"c": huge}, {"e": 7}, {"e": huge}, {"a": huge - 1}, {"a": "s"}, {"x": huge},
            {"x": 1}, {"n": 3}, {"n": -huge}, {"c": 1, "n": huge}]
    for _ in range(2):
        nthreads = rng.choice([4, 8])
        lists = [[copy.deepcopy(rng.choice(pool)) for _ in range(12)] for _ in range(nthreads)]
        base = [sequential(sut, fpm, element, lst) for lst in lists]
        records, errors, stuck = concurrent(sut, fpm, element, lists, injector, 0.15)
        again = [sequential(sut, fpm, element, lst) for lst in lists]
        if stuck or errors:
            ctx.inconclusive_reason("huge-int run: threads stuck or harness error " + str(errors[:1]))
            return
        ctx.count("huge_int_runs")
        if base != again:
            ctx.witness("sequential_baseline_unstable", {"huge_int_run": True},
                        "sequential validation of huge integers differs before and after the concurrent phase")
            return
        for tid, recs in enumerate(records):
            for pos, (_s, _e, outcome, fp) in enumerate(recs):
                ctx.evaluation()
                ctx.count("huge_int_runs.calls")
                want = base[tid][pos]
                if outcome != want[0] or (outcome == "ok" and fp != want[1]):
                    ctx.witness("concurrent_differs_from_sequential",
                                {"huge_int_run": True, "threads": nthreads, "keys": sorted(lists[tid][pos])},
                                f"thread {tid} call {pos} (members {sorted(lists[tid][pos])}, integers of 5000 digits): "
                                f"concurrent -> {outcome}; alone (main thread) -> {want[0]}")
                    return


def cyclic_models(ctx, sut, fpm):
    """Two models that refer to each other, wired up after their declaration as the documentation shows
    (`A.properties["b"] = Property(B)`), validated by threads that enter the cycle through different models.
    A thread which never comes back is judged on PROGRESS, not on time: all workers alive, none of them having
    completed a call or moved to another line between samples taken seconds apart."""
    from statham.schema.elements.meta import ObjectClassDict  # pylint: disable=import-outside-toplevel

    body_a, body_b = ObjectClassDict(), ObjectClassDict()
    body_a["name"] = sut.Property(sut.String())
    body_b["label"] = sut.Property(sut.String(), required=True)
    model_a = sut.ObjectMeta("CycleA", (sut.Object,), body_a)
    model_b = sut.ObjectMeta("CycleB", (sut.Object,), body_b)
    model_a.properties["b"] = sut.Property(model_b)
    model_b.properties["a"] = sut.Property(model_a)
    model_b.properties["others"] = sut.Property(sut.Array(model_a))
    values_a = [{"name": "x", "b": {"label": "y", "a": {"name": "z", "b": {"label": "deep"}}}}, {"name": 1},
                {"b": {"a": {}}}, {"name": "n", "b": {"label": "l", "others": [{"name": "o"}, {"b": {"label": "p"}}]}}]
    values_b = [{"label": "l", "a": {"name": "n", "b": {"label": "m"}}}, {"a": {"name": "n"}},
                {"label": "q", "others": [{"b": {"label": "r", "a": {"name": "s"}}}]}, {"label": 5}]
    plans = [(model_a, values_a), (model_b, values_b)]
    base = [[(sut.call(model, copy.deepcopy(v))[0]) for v in vals] for model, vals in plans]
    nthreads, rounds = 8, 12
    done = [0] * nthreads
    wrong = []
    barrier = threading.Barrier(nthreads)

    def work(tid):
        model, vals = plans[tid % 2]
        try:
            barrier.wait(timeout=30)
        except threading.BrokenBarrierError:
            return
        for _ in range(rounds):
            for pos, value in enumerate(vals):
                outcome = sut.call(model, copy.deepcopy(value))[0]
                if outcome != base[tid % 2][pos]:
                    wrong.append((tid, pos, outcome, base[tid % 2][pos]))
                done[tid] += 1

    threads = [threading.Thread(target=work, args=(tid,), name=f"cyc{tid}", daemon=True) for tid in range(nthreads)]
    old = sys.getswitchinterval()
    sys.setswitchinterval(1e-6)
    try:
        for thread in threads:
            thread.start()
        total = rounds * len(values_a)
        last, idle = None, 0
        while any(t.is_alive() for t in threads):
            time.sleep(0.5)
            frames = sys._current_frames()  # pylint: disable=protected-access
            state = (tuple(done), tuple((frames[t.ident].f_code.co_filename, frames[t.ident].f_lineno)
                                        for t in threads if t.ident in frames))
            idle = idle + 1 if state == last else 0
            last = state
            if idle >= 40:   # twenty seconds without a completed call or a line executed, in any worker
                break
    finally:
        sys.setswitchinterval(old)
    ctx.evaluation()
    ctx.count("cyclic_models.runs")
    ctx.count("cyclic_models.calls", sum(done))
    if any(t.is_alive() for t in threads):
        where = sorted({f"{os.path.basename(f)}:{line}" for f, line in last[1]})
        ctx.witness("threads_never_return", {"cyclic_models": True},
                    f"{sum(1 for t in threads if t.is_alive())} of {nthreads} threads validating two mutually "
                    f"referential models made no progress (calls done per thread {done} of {total}; "
                    f"standing at {where})"[:500])
        return
    if wrong:
        tid, pos, got, want = wrong[0]
        ctx.witness("concurrent_differs_from_sequential", {"cyclic_models": True},
                    f"thread {tid} value {pos}: concurrent -> {got}; alone -> {want}")


def size_runs(ctx, sut, fpm, injector):
    """Values of the sizes at which a library might switch to a guarded, chunked or timed code path (such
    paths tend to rely on facilities only the main thread has: signals, contexts)."""
    element = sut.Element(properties={
        "text": sut.Property(sut.String(pattern="^a+$", minLength=1)),
        "list": sut.Property(sut.Array(sut.Integer(), uniqueItems=True, maxItems=10 ** 6)),
        "when": sut.Property(sut.String(format="date-time"))})
    pool = [{"text": "a" * 5000}, {"text": "a" * 4096 + "b"}, {"list": list(range(60))}, {"list": list(range(59)) + [5]},
            {"when": "2020-01-01T00:00:00Z"}, {"text": "a", "list": [1]}]
    lists = [[copy.deepcopy(pool[(tid + k) % len(pool)]) for k in range(4)] for tid in range(3)]
    import warnings  # pylint: disable=import-outside-toplevel

    with warnings.catch_warnings():
        warnings.simplefilter("ignore")
        base = [sequential(sut, fpm, element, lst) for lst in lists]
        records, errors, stuck = concurrent(sut, fpm, element, lists, injector, 0.0)
    if stuck or errors:
        ctx.inconclusive_reason("size run: threads stuck or harness error " + str(errors[:1]))
        return
    ctx.count("size_runs")
    for tid, recs in enumerate(records):
        for pos, (_s, _e, outcome, fp) in enumerate(recs):
            ctx.evaluation()
            ctx.count("size_runs.calls")
            want = base[tid][pos]
            if outcome != want[0] or (outcome == "ok" and fp != want[1]):
                ctx.witness("concurrent_differs_from_sequential", {"size_run": True, "value_keys": sorted(lists[tid][pos])},
                            f"thread {tid} call {pos}: concurrent -> {outcome}; alone (main thread) -> {want[0]}")
                return


def default_runs(ctx, sut, fpm, injector):
    """Threads building objects that OMIT members whose schemas declare container defaults (the default is
    state of the shared tree: every thread must get its own converted copy, and the tree keeps the literal)."""
    rng = ctx.rng
    inner = sut.Object.inline("DefInner", properties={"v": sut.Property(sut.Number())})
    element = sut.Element(properties={
        "tags": sut.Property(sut.Array(sut.Number(), default=[1, 2])),
        "objs": sut.Property(sut.Array(inner, default=[{"v": 1}, {"v": 2}])),
        "tup": sut.Property(sut.Array([sut.Number(), sut.String()], default=[3, "s"])),
        "plain": sut.Property(sut.Element(default={"k": [1]}))})
    pool = [{}, {"tags": [5]}, {"objs": []}, {"tup": [1, "x"]}, {"plain": 1}, {"tags": [1], "objs": [{"v": 3}]}]
    for _ in range(2):
        nthreads = rng.choice([3, 6])
        lists = [[copy.deepcopy(rng.choice(pool)) for _ in range(12)] for _ in range(nthreads)]
        before = fpm.fp_config(element)
        base = [sequential(sut, fpm, element, lst) for lst in lists]
        records, errors, stuck = concurrent(sut, fpm, element, lists, injector, 0.05)
        if stuck or errors:
            ctx.inconclusive_reason("default run: threads stuck or harness error " + str(errors[:1]))
            return
        ctx.count("default_runs")
        if fpm.fp_config(element) != before:
            ctx.witness("tree_changed_at_quiescence", {"default_run": True},
                        "the element tree (its defaults) differs after validating objects that omit members")
            return
        for tid, recs in enumerate(records):
            for pos, (_s, _e, outcome, fp) in enumerate(recs):
                ctx.evaluation()
                ctx.count("default_runs.calls")
                want = base[tid][pos]
                if outcome != want[0] or (outcome == "ok" and fp != want[1]):
                    ctx.witness("concurrent_differs_from_sequential", {"default_run": True, "value": lists[tid][pos]},
                                f"thread {tid} call {pos}: concurrent -> {outcome}; alone -> {want[0]}")
                    return


def run_shard(ctx):
    from vlib import fingerprint as fpm  # pylint: disable=import-outside-toplevel
    from vlib import monitors, sut  # pylint: disable=import-outside-toplevel

    def timed(label, func, *args):
        started = time.monotonic()
        try:
            return func(*args)
        finally:
            ctx.count("seconds." + label, round(time.monotonic() - started, 1))
            ctx.count(f"seconds_by_shard.{ctx.shard:02d}", round(time.monotonic() - started, 1))

    timed("cold_process", cold_process, ctx, sut, fpm)
    timed("cyclic_models", cyclic_models, ctx, sut, fpm)
    ctx.signatures = set()
    injector = monitors.YieldInjector(0.0, f"{ctx.seed}/{ctx.shard}")
    injector.start()
    try:
        timed("format_runs", format_runs, ctx, sut, fpm, injector)
        timed("numeric_runs", numeric_runs, ctx, sut, fpm, injector)
        timed("huge_int_runs", huge_int_runs, ctx, sut, fpm, injector)
        timed("default_runs", default_runs, ctx, sut, fpm, injector)
        timed("size_runs", size_runs, ctx, sut, fpm, injector)
        started = time.monotonic()
        for idx in range(ctx.params["runs"]):
            run_started = time.monotonic()
            one_run(ctx, sut, fpm, monitors, injector, ctx.rng, idx)
            if time.monotonic() - run_started > 15:
                ctx.count(f"slow_generated_run.shard{ctx.shard:02d}.run{idx}", round(time.monotonic() - run_started))
        ctx.count("seconds.generated_runs", round(time.monotonic() - started, 1))
        ctx.count(f"seconds_by_shard.{ctx.shard:02d}", round(time.monotonic() - started, 1))
    finally:
        injector.stop()
    ctx.count("distinct_interleaving_signatures", len(ctx.signatures))


def replay(case, ctx):
    """Re-run the recorded tree and value lists under the injector several times
    (a schedule cannot be replayed exactly; 30 attempts at p=0.3)."""
    from vlib import fingerprint as fpm  # pylint: disable=import-outside-toplevel
    from vlib import monitors, sut  # pylint: disable=import-outside-toplevel

    injector = monitors.YieldInjector(0.0, "replay")
    injector.start()
    try:
        if case.get("size_run"):
            for _ in range(5):
                size_runs(ctx, sut, fpm, injector)
            return
        if case.get("cyclic_models"):
            for _ in range(3):
                cyclic_models(ctx, sut, fpm)
            return
        if case.get("huge_int_run"):
            for _ in range(5):
                huge_int_runs(ctx, sut, fpm, injector)
            return
        if case.get("numeric_run") or case.get("format_run") or case.get("default_run"):
            # these scenarios use fixed elements and pools: run them again (several times)
            for _ in range(10):
                (numeric_runs if case.get("numeric_run") else
                 default_runs if case.get("default_run") else format_runs)(ctx, sut, fpm, injector)
            return
        spec = case.get("spec")
        element = gen_dsl.build(spec) if spec else sut.parse_direct(case["schema"])
        lists = [lst * 4 for lst in case["lists"]]
        trigger = bool(spec and shared_prop_ids(spec))
        base = [sequential(sut, fpm, element, lst) for lst in lists]
        for _ in range(30):
            records, _errors, _stuck = concurrent(sut, fpm, element, lists, injector, 0.3)
            for tid, recs in enumerate(records):
                for pos, (_s, _e, outcome, fp) in enumerate(recs):
                    ctx.evaluation()
                    want = base[tid][pos]
                    if sut.accepted(outcome) != sut.accepted(want[0]) or (outcome == "ok" and fp != want[1]):
                        ctx.witness("concurrent_differs_from_sequential", case,
                                    f"thread {tid} call {pos} differs from sequential",
                                    finding="F25" if trigger else None)
                        return
    finally:
        injector.stop()
