"""C08 - validation is pure (schema and data unchanged) and repeatable."""
import copy

from vlib import gen_dsl
from vlib import gen_schemas as gs
from vlib import gen_values as gv
from vlib import refmodel
from vlib.runner import canon

PROPERTY = "C08"
TECHNIQUE = (
    "runtime monitoring: purity monitor - library-independent fingerprint of the whole element tree "
    "and of the input value before/after EVERY call of a validation history, plus the library's own "
    "observables (== against an independently rebuilt twin, repr, serialize_json, serialize_python) "
    "around the history; repeat calls must reproduce outcome class and result fingerprint"
)
RULE = (
    "case = (element tree built through the DSL from a spec or parsed from a generated schema, history "
    "of 5..200 accepted and rejected calls incl. repeats and caller-side mutation of returned results); "
    "non-trivial = tree with >= 3 nodes and a history with both accepted and rejected values; distinct "
    "by (spec or schema, value list)"
)
ASSUMPTIONS = [
    "fingerprint = class + every instance attribute except parent back-pointers (rebound by design, not "
    "observable through ==, repr or serialization)",
    "a Property object placed under two different names is known finding F25 (rebinding), attributed "
    "only when masking the names of such shared properties removes the difference",
]
REQUIRED_COUNTERS = [
    "calls", "calls.accepted", "calls.rejected", "snapshots.compared", "repeat.compared", "trees.dsl",
    "trees.parsed", "shape.explicit_required", "shape.renamed_property", "shape.inherited_class",
    "shape.shared_node", "result_mutated_then_repeated", "twin.equal_after", "history.long",
    "fresh_twin.verdicts_compared", "history.other_classes_used_first", "trees.root_is_subclass",
    "input.defaultdict",
]

ANCHORS = [
    "statham.schema.validation.object:Required.from_element",
    "statham.schema.validation:get_validators",
    "statham.schema.elements.properties:Properties.__init__",
    "statham.schema.property:_Property.bind",
    "statham.schema.elements.base:Element.validators",
]


RAISING_REGISTERED = set()


def register_raising():
    from statham.schema.validation.format import format_checker  # pylint: disable=import-outside-toplevel

    if "c08-raises" not in RAISING_REGISTERED:
        RAISING_REGISTERED.add("c08-raises")

        @format_checker.register("c08-raises")
        def _raises(value):  # pylint: disable=unused-variable
            if "boom" in value:
                raise RuntimeError("checker failed")
            return True


def plan(tier):
    if tier == "quick":
        return {"shards": 16, "trees": 90, "calls": 18, "timeout": 900}
    return {"shards": 16, "trees": 4000, "calls": 24, "timeout": 7200}


def shared_prop_ids(spec):
    """pids used under two different names (F25 structural trigger)."""
    names = {}

    def walk(node):
        if isinstance(node, dict):
            for holder in (node.get("props"), (node.get("kw") or {}).get("properties")
                           if isinstance(node.get("kw"), dict) else None):
                if isinstance(holder, dict):
                    for name, pspec in holder.items():
                        if isinstance(pspec, dict) and "pid" in pspec:
                            names.setdefault(pspec["pid"], set()).add(name)
            for val in node.values():
                walk(val)
        elif isinstance(node, list):
            for val in node:
                walk(val)

    walk(spec)
    return {pid for pid, used in names.items() if len(used) > 1}


def mask_prop_names(fp):
    """Fingerprint with every property's bound name/source masked."""
    if isinstance(fp, tuple):
        if fp and fp[0] == "prop" and len(fp) == 6:
            return ("prop", fp[1], "*", "*", fp[4], mask_prop_names(fp[5]))
        return tuple(mask_prop_names(part) for part in fp)
    return fp


def mutate_result(result):
    """Caller-side mutation of a returned result (must not leak into the schema)."""
    from vlib import sut  # pylint: disable=import-outside-toplevel

    try:
        if isinstance(result, list):
            result.append("caller-added")
            return True
        if isinstance(result, sut.Object):
            result._dict["caller-added"] = 1  # pylint: disable=protected-access
            for name in list(type(result).properties or {})[:1]:
                setattr(result, name, "caller-set")
            return True
        if isinstance(result, dict):
            result["caller-added"] = 1
            return True
    except Exception:  # pylint: disable=broad-except
        return False
    return False


def tree_classes(sut, element):
    """Every model class of the tree, including base classes that are only reachable as bases."""
    try:
        found = [c for c in [element] + list(sut.get_children(element)) if isinstance(c, sut.ObjectMeta)]
    except Exception:  # pylint: disable=broad-except
        found = [element] if isinstance(element, sut.ObjectMeta) else []
    out = {}
    for cls in found:
        for base in cls.__mro__:
            if isinstance(base, sut.ObjectMeta) and base is not sut.Object:
                out[id(base)] = base
    return list(out.values())


def instances_as_input(ctx, sut, fpm, element, value, result, res_fp, case, step):
    """Models are also built from models (`Outer({"inner": Inner({...})})` is how the DSL is used): the value
    handed in is then a model instance.  Validating it again must leave it unchanged and give an equal
    result, whether it is the whole value or a member of it."""
    held = fpm.fp_result(result)
    outcome, again, _ = sut.call(element, result)
    ctx.count("input.model_instance")
    ctx.count("calls")
    if fpm.fp_result(result) != held:
        ctx.witness("input_mutated", {**case, "step": step, "value": value},
                    "a model instance passed as the value was changed by validating it")
    elif (outcome, fpm.fp_result(again) if outcome == "ok" else None) != res_fp:
        ctx.witness("not_repeatable", {**case, "step": step, "value": value},
                    f"validating the model built from a value gave {outcome} / a result different from that model")
    if not isinstance(value, dict):
        return
    import re  # pylint: disable=import-outside-toplevel

    props = list((element.properties or {}).values())
    patterns = list(getattr(element, "patternProperties", None) or {}) \
        if not isinstance(getattr(element, "patternProperties", None), sut.NotPassed) else []
    for prop in props:
        inner = prop.element
        # only members governed by that class ALONE (a pattern matching the name, or one property object
        # under two names, brings a second element which is entitled to its own view of a non-JSON value)
        if any(re.search(pattern, prop.source) for pattern in patterns) or \
                sum(1 for other in props if other is prop or other.source == prop.source) != 1:
            continue
        if isinstance(inner, sut.ObjectMeta) and isinstance(value.get(prop.source), dict):
            out_inner, instance, _ = sut.call(inner, copy.deepcopy(value[prop.source]))
            if out_inner != "ok" or not isinstance(instance, sut.Object):
                continue
            held_inner = fpm.fp_result(instance)
            mixed = {**copy.deepcopy(value), prop.source: instance}
            outcome, again, _ = sut.call(element, mixed)
            ctx.count("input.nested_model_instance")
            ctx.count("calls")
            if fpm.fp_result(instance) != held_inner:
                ctx.witness("input_mutated", {**case, "step": step, "value": value},
                            f"the model instance passed as member {prop.source!r} was changed by the call")
            elif (outcome, fpm.fp_result(again) if outcome == "ok" else None) != res_fp:
                ctx.witness("not_repeatable", {**case, "step": step, "value": value},
                            f"member {prop.source!r} given as a model instance instead of its data: {outcome} / "
                            "a different result")
            break


def run_history(ctx, sut, monitors, fpm, element, twin_builder, values, case, f25_possible):
    before = monitors.PuritySnapshot(element)
    others = [cls for cls in tree_classes(sut, element) if cls is not element]
    if others:
        # use the other classes of the tree first (a parent before its child, a nested class before its
        # owner): whatever they leave behind must not influence the element under observation
        ctx.count("history.other_classes_used_first")
        for cls in others:
            for value in values[:3]:
                sut.call(cls, copy.deepcopy(value) if not isinstance(value, sut.NotPassed) else value)
    first_seen = {}
    accepted = rejected = 0
    last_fp = before.fp
    for step, value in enumerate(values):
        if isinstance(value, dict) and step % 7 == 3:
            # any mapping the library accepts as an object: here a dict with a default factory, whose mere
            # subscripting would insert members
            import collections  # pylint: disable=import-outside-toplevel

            plain_outcome = sut.call(element, copy.deepcopy(value))[0]
            value = collections.defaultdict(lambda: "made-up", value)
            ctx.count("input.defaultdict")
            outcome_dd = sut.call(element, value)[0]
            if fpm.fp_value(dict(value)) != fpm.fp_value(dict(values[step])):
                ctx.witness("input_mutated", {**case, "step": step, "value": dict(values[step])},
                            "a defaultdict input gained members during validation: "
                            f"{sorted(set(value) - set(values[step]))}")
            elif sut.accepted(outcome_dd) != sut.accepted(plain_outcome):
                ctx.witness("not_repeatable", {**case, "step": step, "value": dict(values[step])},
                            f"the same members as a plain dict -> {plain_outcome}, as a defaultdict -> {outcome_dd}")
            value = values[step]
        value_fp = fpm.fp_value(value)
        pristine = copy.deepcopy(value)
        outcome, result, exc = sut.call(element, value)
        ctx.count("calls")
        ctx.evaluation()
        if outcome == "ok":
            accepted += 1
            ctx.count("calls.accepted")
        elif outcome in ("ValidationError", "TypeError"):
            rejected += 1
            ctx.count("calls.rejected")
        else:
            ctx.count("calls.other_outcome")
        if fpm.fp_value(value) != value_fp:
            ctx.witness("input_mutated", {**case, "step": step, "value": value},
                        f"the input value was changed by the call ({outcome})")
        now_fp = (fpm.fp_config(element),)
        ctx.count("snapshots.compared")
        if now_fp != last_fp:
            where = monitors.first_difference(last_fp, now_fp)
            finding = None
            if f25_possible and mask_prop_names(now_fp) == mask_prop_names(last_fp):
                finding = "F25"
            ctx.witness("tree_changed", {**case, "step": step, "value": value},
                        f"element tree fingerprint changed by call #{step} ({outcome}): {where}",
                        finding=finding)
            last_fp = now_fp
        key = canon(value) if not isinstance(value, sut.NotPassed) else "NP"
        res_fp = (outcome, fpm.fp_result(result) if outcome == "ok" else None)
        if key in first_seen:
            ctx.count("repeat.compared")
            if first_seen[key] != res_fp:
                ctx.witness("not_repeatable", {**case, "step": step, "value": value},
                            f"repeating a value gave {str(res_fp)[:300]} after {str(first_seen[key])[:300]}")
        else:
            first_seen[key] = res_fp
        if outcome == "ok" and step % 4 == 1 and isinstance(element, sut.ObjectMeta) and isinstance(result, element) \
                and not f25_possible:
            instances_as_input(ctx, sut, fpm, element, pristine, result, res_fp, case, step)
        if outcome == "ok" and step % 3 == 0 and not isinstance(value, sut.NotPassed) \
                and mutate_result(result):
            # (results may legitimately BE the input object, e.g. under `not`;
            # the repeat therefore uses a pristine copy of the input.  Calls
            # with no value are excluded: an invalid default is documented to
            # come back as-is, i.e. as the schema's own object.)
            ctx.count("result_mutated")
            # the same value again: must reproduce the first result, and the tree must be intact
            outcome2, result2, _ = sut.call(element, pristine)
            ctx.count("calls")
            ctx.count("result_mutated_then_repeated")
            if (outcome2, fpm.fp_result(result2) if outcome2 == "ok" else None) != res_fp:
                ctx.witness("result_aliasing", {**case, "step": step, "value": value},
                            "after the caller mutated a returned result, repeating the call gave a "
                            "different result (a returned object is cached or aliases the schema)")
            if (fpm.fp_config(element),) != last_fp:
                ctx.witness("result_aliases_schema", {**case, "step": step, "value": value},
                            "mutating a returned result changed the element tree")
                last_fp = (fpm.fp_config(element),)
        _ = exc
    after = monitors.PuritySnapshot(element)
    changed = before.diff(after)
    if changed:
        finding = None
        if f25_possible and mask_prop_names(before.fp) == mask_prop_names(after.fp):
            finding = "F25"
        ctx.witness("observables_changed", case,
                    f"after the history these observables differ: {changed}; "
                    f"{monitors.first_difference(before.fp, after.fp)}", finding=finding)
    try:
        twin = twin_builder()
        equal = element == twin
        # repeatable also means: what a used tree says, a fresh equal tree says too
        for value in values[:8]:
            if isinstance(value, sut.NotPassed):
                continue
            used_out, used_res, _ = sut.call(element, copy.deepcopy(value))
            fresh_out, fresh_res, _ = sut.call(twin, copy.deepcopy(value))
            ctx.count("fresh_twin.verdicts_compared")
            same = sut.accepted(used_out) == sut.accepted(fresh_out) and (
                used_out != "ok" or fpm.fp_result(used_res) == fpm.fp_result(fresh_res))
            if not same:
                finding = "F25" if f25_possible else None
                ctx.witness("used_tree_differs_from_fresh_tree", {**case, "value": value},
                            f"after the history the tree gives {used_out} but an independently built copy "
                            f"gives {fresh_out} (or a different result)", finding=finding)
                break
    except Exception as err:  # pylint: disable=broad-except
        equal = None
        ctx.count("twin.build_failed." + type(err).__name__)
    if equal is True:
        ctx.count("twin.equal_after")
    elif equal is False:
        # was it equal before?  (reflexivity problems belong to C17)
        try:
            fresh_pair = twin_builder() == twin_builder()
        except Exception:  # pylint: disable=broad-except
            fresh_pair = False
        if fresh_pair:
            ctx.witness("unequal_to_fresh_copy", case,
                        "after the history the element no longer equals an independently built copy")
        else:
            ctx.count("twin.never_equal(C17_domain)")
    return accepted, rejected


def run_shard(ctx):
    from vlib import fingerprint as fpm  # pylint: disable=import-outside-toplevel
    from vlib import monitors, sut  # pylint: disable=import-outside-toplevel

    rng = ctx.rng
    for idx in range(ctx.params["trees"]):
        ncalls = ctx.params["calls"]
        if idx % 25 == 0:
            ncalls = 200
            ctx.count("history.long")
        if idx % 3 != 2:
            gen = gen_dsl.Gen(rng, shared_props=0.5 if idx % 12 == 0 else 0.0,
                              explicit_required=0.5, renames=0.4, inheritance=0.4,
                              pattern_overlap=0.6 if idx % 4 == 1 else 0.0)
            if idx % 20 == 3:
                # keyword values of an unusual TYPE that the constructors accept all the same (a boolean where
                # a number is usual - booleans are numbers to Python): validating must leave them as they are
                inner = {"t": rng.choice(["Integer", "Number"]),
                         "kw": {"minimum": rng.choice([0, 3]), "maximum": 50,
                                rng.choice(["exclusiveMinimum", "exclusiveMaximum"]): rng.choice([True, False]),
                                **({"multipleOf": True} if rng.random() < 0.3 else {})}}
                spec = rng.choice([inner, {"t": "Array", "kw": {}, "items": inner},
                                   {"t": "Element", "kw": {"properties": {"n": {"el": inner, "required": False, "source": None}}}}])
                ctx.count("trees.boolean_where_number_is_usual")
            elif idx % 10 == 7:
                # a composition whose FIRST member hands the caller's own object back (`not` does), followed by
                # members that would fill in defaults: whatever is "merged" must not land in the input
                filler = {"t": "Element", "kw": {"properties": {
                    name: {"el": {"t": "Element", "kw": {"default": rng.choice([1, "d", [0], {"k": 1}])}},
                           "required": False, "source": None}
                    for name in rng.sample(["size", "a", "b", "zz"], k=2)}}}
                first = rng.choice([{"t": "Not", "kw": {}, "element": {"t": "Null", "kw": {}}},
                                    {"t": "Element", "kw": {}},
                                    {"t": "Not", "kw": {}, "element": {"t": "String", "kw": {}}}])
                spec = {"t": rng.choice(["AllOf", "AllOf", "AnyOf", "OneOf"]), "kw": {},
                        "elements": [first, filler] + ([gen.spec(1)] if rng.random() < 0.3 else [])}
                ctx.count("trees.passthrough_first_member")
            elif idx % 20 == 13:
                # a member whose validation raises something that is NOT a validation error (a pattern which is
                # a regular expression to JSON Schema but not to Python, a user's format checker that raises),
                # inside a model that has a default: purity holds for calls that end in any exception
                register_raising()
                bad = rng.choice([{"pattern": "\\p{Lu}"}, {"pattern": "(?<y>\\d{4})"}, {"format": "c08-raises"}])
                spec = {"t": "Object", "name": f"Raiser{idx}", "base": None, "id": 9000 + idx,
                        "kw": {"default": {"code": "boom Ab", "n": 1}},
                        "props": {"code": {"el": {"t": "String", "kw": bad}, "required": False, "source": None},
                                  "n": {"el": {"t": "Integer", "kw": {"default": 3}}, "required": False, "source": None}}}
                ctx.count("trees.member_raising_other_exceptions")
                raising = True
            elif idx % 5 == 0:
                spec = gen.family(2, levels=rng.choice([2, 2, 3]))
                ctx.count("trees.root_is_subclass")
            else:
                spec = gen.spec() if idx % 2 else gen.klass(gen.max_depth)
            schema = gen_dsl.to_schema(spec)
            if locals().get("raising"):
                raising = False
                schema = {"type": "object", "properties": {"code": {"type": "string"}, "n": {"type": "integer"}}}
                fixed_values = [sut.NotPassed(), {}, {"code": "boom Ab"}, {"n": 1}, sut.NotPassed(), {"code": "Ab"},
                                {"code": 5}, sut.NotPassed(), {"n": "x"}, {}]
            else:
                fixed_values = None
            try:
                element = gen_dsl.build(spec)
            except Exception as exc:  # pylint: disable=broad-except
                ctx.count("build_failed." + type(exc).__name__)
                continue
            ctx.count("trees.dsl")
            for shape in gen_dsl.shapes(spec):
                ctx.count("shape." + shape)
            twin_builder = lambda spec=spec: gen_dsl.build(spec)  # noqa: E731
            case = {"spec": spec}
            nodes = gen_dsl.count_nodes(spec)
            f25 = bool(shared_prop_ids(spec))
            if f25:
                ctx.count("shape.property_under_two_names")
        else:
            schema, _tag = gs.any_schema(rng)
            if not isinstance(schema, dict) or not refmodel.metaschema_valid(schema):
                continue
            try:
                element = sut.parse_direct(schema)
            except Exception as exc:  # pylint: disable=broad-except
                ctx.count("parse_failed." + type(exc).__name__)
                continue
            ctx.count("trees.parsed")
            twin_builder = lambda schema=schema: sut.parse_direct(schema)  # noqa: E731
            case = {"schema": schema}
            nodes = gs.size_of(schema)[0]
            f25 = False
        base = gv.batch_for_schema(rng, schema, schema, count=max(6, ncalls // 3)) \
            if isinstance(schema, dict) else [gv.random_value(rng) for _ in range(6)]
        values = [copy.deepcopy(rng.choice(base)) for _ in range(ncalls)]
        if rng.random() < 0.3:
            values[rng.randrange(len(values))] = sut.NotPassed()
        if idx % 3 != 2 and fixed_values:
            values = fixed_values + values[:10]
        case["values"] = [v for v in values[:30] if not isinstance(v, sut.NotPassed)]
        accepted, rejected = run_history(ctx, sut, monitors, fpm, element, twin_builder, values, case, f25)
        if nodes >= 3 and accepted and rejected:
            ctx.nontrivial(canon([case.get("spec") or case.get("schema"), case["values"]]))
        ctx.sample({k: v for k, v in case.items()}, every=60)


def replay(case, ctx):
    register_raising()
    from vlib import fingerprint as fpm  # pylint: disable=import-outside-toplevel
    from vlib import monitors, sut  # pylint: disable=import-outside-toplevel

    if "spec" in case:
        spec = case["spec"]
        element = gen_dsl.build(spec)
        builder = lambda: gen_dsl.build(spec)  # noqa: E731
        f25 = bool(shared_prop_ids(spec))
    else:
        element = sut.parse_direct(case["schema"])
        builder = lambda: sut.parse_direct(case["schema"])  # noqa: E731
        f25 = False
    values = list(case.get("values", []))
    if "value" in case:
        values.append(case["value"])
    base = {k: v for k, v in case.items() if k in ("spec", "schema", "values")}
    run_history(ctx, sut, monitors, fpm, element, builder, values, base, f25)
