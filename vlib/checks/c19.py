"""C19 - generated type annotations are sound for every value a model can hold."""
import copy
import re

from vlib import gen_dsl
from vlib import gen_schemas as gs
from vlib import gen_values as gv
from vlib import refmodel
from vlib.runner import canon

PROPERTY = "C19"
TECHNIQUE = (
    "runtime monitoring: membership oracle - for every Object instance found anywhere inside a model "
    "built from accepted data, each attribute value is checked for runtime membership in the annotation "
    "TEXT the generator emits for that property (read as a type checker reads it: List element types, "
    "Union members, NotPassed only under Maybe, int where float is announced), evaluated in the generated "
    "module's namespace; a property annotated without Maybe must never hold NotPassed"
)
RULE = (
    "model class from the parser (object schemas whose properties range over every element kind and "
    "nesting, valid defaults only) or from the DSL spec generator; values = accepted ones from the "
    "valid-by-construction solver and mutants; case = (class, accepted value); non-trivial = class with a "
    "property whose annotation is not a bare scalar (List/Union/Maybe/class) ; distinct by (schema/spec, value)"
)
ASSUMPTIONS = [
    "annotation membership: Any = everything; bare List = List[Any]; float accepts int (and bool, as "
    "mypy does); int accepts bool; model classes by isinstance; Maybe[T] = Union[T, NotPassed]",
    "F23 (AllOf takes its annotation from a later branch but builds with the first) is attributed only "
    "when the failing property's element contains an AllOf whose first branch's annotation differs from "
    "the AllOf's own annotation",
    "defaults are restricted to ones valid for their schema",
]
REQUIRED_COUNTERS = ["classes", "accepted_models", "instances_checked", "attributes_checked", "shape.List",
                     "shape.Union", "shape.Maybe", "shape.class", "shape.Any", "shape.scalar",
                     "notpassed.under_maybe", "always_present.checked", "line_crosscheck", "nested_instances",
                     "source.parsed", "source.dsl", "int_under_float", "pattern_overlaps_declared", "root_is_subclass"]

ANCHORS = [
    "statham.schema.elements.base:Element.annotation",
    "statham.schema.elements.array:Array.annotation",
    "statham.schema.elements.array:Array.item_annotations",
    "statham.schema.elements.composition:CompositionElement.annotation",
    "statham.schema.elements.composition:AllOf.annotation",
    "statham.schema.elements.meta:ObjectMeta.annotation",
    "statham.schema.property:_Property.annotation",
    "statham.schema.elements.composition:_attempt_schemas",
]


def plan(tier):
    if tier == "quick":
        return {"shards": 16, "classes": 130, "values": 10, "timeout": 900}
    return {"shards": 16, "classes": 9000, "values": 10, "timeout": 7200}


def parse_annotation(text, names):
    """Annotation text -> tree, resolved against the module namespace.  A hand
    parser instead of eval(): typing caches List[X] by hash/== of X, and model
    classes compare structurally, so eval could hand back an equal class from
    another schema."""
    import ast  # pylint: disable=import-outside-toplevel

    def build(node):
        if isinstance(node, ast.Constant) and node.value is None:
            return ("None",)
        if isinstance(node, ast.Name):
            name = node.id
            if name == "Any":
                return ("Any",)
            if name == "None":
                return ("None",)
            if name == "List":
                return ("List", None)
            if name in ("str", "int", "float", "bool"):
                return ("scalar", name)
            if name == "NotPassed":
                return ("NotPassed",)
            if name not in names:
                raise NameError(name)
            return ("class", names[name])
        if isinstance(node, ast.Subscript) and isinstance(node.value, ast.Name):
            head = node.value.id
            inner = node.slice
            args = list(inner.elts) if isinstance(inner, ast.Tuple) else [inner]
            if head == "List":
                if len(args) != 1:
                    raise TypeError("List takes one argument")
                return ("List", build(args[0]))
            if head == "Union":
                return ("Union", [build(arg) for arg in args])
            if head == "Maybe":
                if len(args) != 1:
                    raise TypeError("Maybe takes one argument")
                return ("Union", [build(args[0]), ("NotPassed",)])
        raise TypeError(f"unsupported annotation syntax: {ast.dump(node)[:80]}")

    return build(ast.parse(text, mode="eval").body)


def member(sut, value, ann, depth=0):
    """Runtime membership of `value` in a parsed annotation, as a type checker reads it."""
    kind = ann[0]
    if kind == "Any":
        return True
    if kind == "None":
        return value is None
    if kind == "NotPassed":
        return isinstance(value, sut.NotPassed)
    if kind == "Union":
        return any(member(sut, value, arg, depth + 1) for arg in ann[1])
    if kind == "List":
        if not isinstance(value, list):
            return False
        return ann[1] is None or all(member(sut, item, ann[1], depth + 1) for item in value)
    if kind == "scalar":
        if ann[1] == "float":
            return isinstance(value, (int, float))
        if ann[1] == "int":
            return isinstance(value, int)
        if ann[1] == "bool":
            return isinstance(value, bool)
        return isinstance(value, str)
    if kind == "class":
        return isinstance(value, ann[1])
    return False


def annotation_namespace(sut, classes):
    _ = sut
    return {cls.__name__: cls for cls in classes}


def shape_of(text):
    if text.startswith("Maybe["):
        return "Maybe"
    if text.startswith("List"):
        return "List"
    if text.startswith("Union["):
        return "Union"
    if text == "Any":
        return "Any"
    if text in ("str", "int", "float", "bool", "None"):
        return "scalar"
    return "class"


def _f23_shape(sut, element):
    """F23 as observed on the pinned tree: the documented rule SKIPS a first branch annotated Any or
    Union[...] and takes the annotation of a later branch, while the value is built by the first."""
    if not (isinstance(element, sut.AllOf) and element.elements):
        return False
    first = _safe_ann(element.elements[0])
    return (first == "Any" or first.startswith("Union")) and first != _safe_ann(element)


def allof_mismatch(sut, element, depth=0):
    """F23 trigger: an AllOf (here or anywhere below) of that shape."""
    if _f23_shape(sut, element):
        return True
    try:
        children = list(sut.get_children(element))
    except Exception:  # pylint: disable=broad-except
        return False
    _ = depth
    return any(_f23_shape(sut, child) for child in children)


def _safe_ann(element):
    try:
        return element.annotation
    except Exception:  # pylint: disable=broad-except
        return "<error>"


def instances_in(sut, result, out=None, depth=0):
    out = [] if out is None else out
    if depth > 30:
        return out
    if isinstance(result, sut.Object):
        out.append((result, depth))
        for val in getattr(result, "_dict", {}).values():
            instances_in(sut, val, out, depth + 1)
    elif isinstance(result, dict):
        for val in result.values():
            instances_in(sut, val, out, depth + 1)
    elif isinstance(result, list):
        for val in result:
            instances_in(sut, val, out, depth + 1)
    return out


def check_instance(ctx, sut, inst, names, case, line_annotations):
    cls = type(inst)
    ctx.count("instances_checked")
    for attr, prop in (cls.properties or {}).items():
        try:
            text = prop.annotation
        except Exception as exc:  # pylint: disable=broad-except
            ctx.witness("annotation_raised", {**case, "property": attr}, f"{type(exc).__name__}: {exc!r}")
            return False
        emitted = line_annotations.get((cls.__name__, attr))
        if emitted is not None:
            ctx.count("line_crosscheck")
            if emitted != text:
                ctx.witness("annotation_text_differs", {**case, "property": attr},
                            f"generated line annotates {emitted!r} but the property reports {text!r}")
                return False
        try:
            ann = parse_annotation(text, names)
        except Exception as exc:  # pylint: disable=broad-except
            ctx.witness("annotation_not_evaluable", {**case, "property": attr},
                        f"annotation {text!r} does not evaluate in the module namespace: {exc!r}"[:300])
            return False
        ctx.count("shape." + shape_of(text))
        ctx.count("attributes_checked")
        try:
            value = getattr(inst, attr)
        except AttributeError:
            ctx.witness("attribute_missing", {**case, "property": attr}, f"instance has no attribute {attr!r}")
            return False
        if isinstance(value, sut.NotPassed):
            if text.startswith("Maybe["):
                ctx.count("notpassed.under_maybe")
            else:
                ctx.witness("notpassed_without_maybe", {**case, "property": attr},
                            f"{cls.__name__}.{attr} is annotated {text!r} (always present) but holds NotPassed")
                return False
            continue
        if not text.startswith("Maybe["):
            ctx.count("always_present.checked")
        if isinstance(value, int) and not isinstance(value, bool) and "float" in text:
            ctx.count("int_under_float")
        if not member(sut, value, ann):
            finding = "F23" if allof_mismatch(sut, prop.element) else None
            ctx.witness("value_not_in_annotation", {**case, "property": attr},
                        f"{cls.__name__}.{attr}: {value!r} ({type(value).__name__}) is not a member of "
                        f"{text!r}; element {prop.element!r}"[:500], finding=finding)
            return False
    return True


LINE = re.compile(r"^    (\w+): (.+?) = Property\(", re.M)


def generated_annotations(sut, classes):
    """(class, attr) -> annotation text as it appears in the generated property lines."""
    out = {}
    for cls in classes:
        try:
            text = cls.python()
        except Exception:  # pylint: disable=broad-except
            continue
        for match in LINE.finditer(text):
            out[(cls.__name__, match.group(1))] = match.group(2)
    return out


def add_valid_defaults(rng, schema, depth=0):
    """Give some property schemas a default that is valid for them."""
    if not isinstance(schema, dict) or depth > 4:
        return
    props = schema.get("properties")
    if isinstance(props, dict):
        for name, sub in props.items():
            if isinstance(sub, dict) and "$ref" not in sub and rng.random() < 0.25:
                # valid for everything Draft 6 applies to this member: the property schema and every
                # pattern its name matches
                applicable = {"allOf": [sub] + [pat_schema for pattern, pat_schema in
                                                (schema.get("patternProperties") or {}).items()
                                                if re.search(pattern, name)]}
                cand = gv.satisfy(rng, applicable, applicable)
                try:
                    # (valid under every reading of a disputed multipleOf: "defaults restricted to ones valid
                    # for their schema" leaves no room for a default whose validity is a matter of opinion)
                    if all(refmodel.valid(applicable, cand, applicable,
                                          refmodel.Dev(waiver=True, curated=gv.CURATED, mult_disputed=flag))
                           for flag in (True, False)):
                        sub["default"] = cand
                except Exception:  # pylint: disable=broad-except
                    pass
            add_valid_defaults(rng, sub, depth + 1)
    for key in ("items", "additionalProperties"):
        sub = schema.get(key)
        if isinstance(sub, dict):
            add_valid_defaults(rng, sub, depth + 1)
        elif isinstance(sub, list):
            for member_schema in sub:
                add_valid_defaults(rng, member_schema, depth + 1)


def prop_schema(rng, depth=2):
    opts = gs.Opts(defaults=0.0, formats=False, max_depth=depth)
    roll = rng.random()
    if roll < 0.5:
        return gs.schema(rng, opts, depth)
    if roll < 0.7:
        return {"type": "array", "items": rng.choice([
            {"type": "object", "title": rng.choice(gs.TITLES), "properties": {"v": gs.leaf(rng)}},
            {"type": "number"}, [{"type": "string"}, {"type": "integer"}],
            {"anyOf": [{"type": "string"}, {"type": "null"}]}])}
    if roll < 0.74:
        # numeric members of both kinds in one composition (which branch builds the value matters)
        members = [{"type": "number"}, {"type": "integer"}]
        if rng.random() < 0.5:
            members.reverse()
        if rng.random() < 0.3:
            members.append({"minimum": 0})
        shape = rng.random()
        if shape < 0.4:
            return {rng.choice(["allOf", "allOf", "anyOf", "oneOf"]): members}
        if shape < 0.7:
            return {"type": members[0]["type"], "allOf": members[1:]}
        return {"type": "array", "items": {"allOf": members}}
    if roll < 0.85:
        key = rng.choice(["anyOf", "oneOf", "allOf"])
        branches = [gs.leaf(rng), {"type": "object", "title": rng.choice(gs.TITLES), "properties": {"w": gs.leaf(rng)}},
                    {"properties": {"w": {"type": "integer"}}}, gs.leaf(rng)]
        rng.shuffle(branches)
        return {key: branches[: rng.randint(1, 3)]}
    return gs.leaf(rng)


def judge_root(ctx, sut, rng, root, model_schema, case, extra_values=()):
    """Validate a batch against `root`; every model instance in every accepted result is checked against the
    annotations of its class.  Returns the generated annotation lines."""
    if not isinstance(root, sut.ObjectMeta):
        return {}
    ctx.count("classes")
    classes = list({id(c): c for c in sut.get_object_classes(root)}.values())
    # base classes are used before the classes derived from them
    for cls in classes + [root]:
        for base in reversed(cls.__mro__[1:]):
            if isinstance(base, sut.ObjectMeta) and base is not sut.Object:
                sut.call(base, {})
                sut.call(base, {"zz": 1})
    names_ns = annotation_namespace(sut, classes)
    lines = generated_annotations(sut, classes)
    rich = any(shape_of(_safe_ann(p)) not in ("scalar", "Any") or True
               for c in classes for p in (c.properties or {}).values())
    values = gv.batch_for_schema(rng, model_schema, model_schema, count=ctx.params["values"], lookalikes=False)
    values += [gv.satisfy(rng, model_schema, model_schema) for _ in range(4)] + list(extra_values)
    for value in values:
        ctx.evaluation()
        outcome, result, _ = sut.call(root, copy.deepcopy(value))
        if outcome != "ok":
            continue
        ctx.count("accepted_models")
        if rich:
            ctx.nontrivial(canon([case.get("schema") or case.get("spec"), value]))
        for inst, depth in instances_in(sut, result):
            if depth:
                ctx.count("nested_instances")
            if not check_instance(ctx, sut, inst, names_ns, {**case, "value": value}, lines):
                break
    return lines


def annotation_work(ctx, sut, only=None):
    """Generating the annotations of a model is part of generating its module: the work for arrays nested in
    arrays (and tuples, and compositions in between) must grow with the depth, not multiply per level. Judged
    in entries into the annotation routines per request (sys.monitoring), never on the clock."""
    from statham.schema.elements.array import Array  # pylint: disable=import-outside-toplevel
    from statham.schema.elements.composition import CompositionElement  # pylint: disable=import-outside-toplevel
    from vlib import monitors  # pylint: disable=import-outside-toplevel

    shapes = [("items", 12), ("tuple", 10), ("anyof_items", 8)]
    for number, (shape, depth) in enumerate(shapes):
        if only is None and number % ctx.nshards != ctx.shard:
            continue
        if only is not None and shape != only:
            continue
        schema = {"type": "integer"}
        for _ in range(depth):
            if shape == "items":
                schema = {"type": "array", "items": schema}
            elif shape == "tuple":
                schema = {"type": "array", "items": [schema, {"type": "string"}], "additionalItems": False}
            else:
                schema = {"type": "array", "items": {"anyOf": [schema, {"type": "null"}]}}
        doc = {"type": "object", "title": "Deep" + shape.title().replace("_", ""), "properties": {"a": schema}}
        try:
            root = sut.parse_direct(copy.deepcopy(doc))
        except Exception as exc:  # pylint: disable=broad-except
            ctx.count("parse_failed." + type(exc).__name__)
            continue
        functions = {"array.annotation": Array.annotation.fget, "array.items": Array.item_annotations.fget,
                     "composition.annotation": CompositionElement.annotation.fget}
        with monitors.CallCounter(functions) as counter:
            try:
                sut.serialize_python(root)
            except Exception as exc:  # pylint: disable=broad-except
                ctx.count("annotation_work.serialize_failed." + type(exc).__name__)
        entries = sum(counter.calls.values())
        ctx.evaluation()
        ctx.count("annotation_work.measured")
        ctx.count("annotation_work.entries", entries)
        budget = 40 * (depth + 2)
        if entries > budget:
            ctx.witness("annotation_work_not_bounded", {"annotation_work": shape},
                        f"generating the module of an array nested {depth} levels ({shape}) entered the annotation "
                        f"routines {entries} times (linear budget {budget}): the work multiplies per level")


VOCABULARY_TITLES = ["ListOptions", "ListItem", "UnionJack", "MaybeNot", "AnyThing", "DictLike", "Listing", "OptionalExtra"]


def vocabulary_titles(ctx, sut):
    """Object classes whose NAMES begin like a name of the annotation vocabulary, next to untyped arrays and
    each other inside compositions: an annotation is about types, never about how a class happens to be called."""
    rng = ctx.rng
    for number, title in enumerate(VOCABULARY_TITLES):
        if number % ctx.nshards != ctx.shard:
            continue
        obj = {"type": "object", "title": title, "properties": {"limit": {"type": "integer"}}}
        other = {"type": "object", "title": "Plain" + title, "properties": {"name": {"type": "string"}}, "required": ["name"]}
        schema = {"type": "object", "title": "Query" + str(number), "properties": {
            "page": {"anyOf": [{"type": "array"}, copy.deepcopy(obj)]},
            "alt": {"oneOf": [copy.deepcopy(obj), {"type": "array", "items": {}}, {"type": "string"}]},
            "both": {"anyOf": [copy.deepcopy(other), copy.deepcopy(obj), {"type": "array", "items": {"type": "integer"}}]},
            "many": {"type": "array", "items": {"anyOf": [copy.deepcopy(obj), {"type": "array"}]}},
        }}
        values = [{"page": {"limit": 5}}, {"page": [1, "a"]}, {"alt": {"limit": 1}}, {"alt": []}, {"alt": "s"},
                  {"both": {"limit": 2}}, {"both": {"name": "n"}}, {"both": [1, 2]}, {"many": [{"limit": 1}, [2], {}]},
                  {"page": {}, "alt": {}, "both": {"limit": 1}, "many": []}]
        try:
            root = sut.parse_direct(copy.deepcopy(schema))
        except Exception as exc:  # pylint: disable=broad-except
            ctx.count("parse_failed." + type(exc).__name__)
            continue
        ctx.count("vocabulary_titles")
        judge_root(ctx, sut, rng, root, schema, {"schema": schema}, values)


def run_shard(ctx):
    from vlib import sut  # pylint: disable=import-outside-toplevel
    from vlib.checks.c04 import shared_property_owners  # pylint: disable=import-outside-toplevel

    # a required property is annotated as always present - also when its `Property` object is declared by
    # a second model under another name (the scenario and its oracle are C04's: the attribute must be there)
    for idx in range(12):
        shared_property_owners(ctx, sut, idx)
    vocabulary_titles(ctx, sut)
    rng = ctx.rng
    for idx in range(ctx.params["classes"]):
        if idx % 3 != 2:
            names = rng.sample(gs.PLAIN_NAMES + ["class", "a-b", "for"], k=rng.randint(1, 4))
            schema = {"type": "object", "title": f"Root{idx}",
                      "properties": {name: prop_schema(rng) for name in names}}
            if rng.random() < 0.5:
                schema["required"] = rng.sample(names, k=rng.randint(1, len(names)))
            if rng.random() < 0.3:
                schema["additionalProperties"] = rng.choice([False, gs.leaf(rng)])
            if rng.random() < 0.4:
                # a pattern that also matches a declared property, with a schema that would BUILD the value
                # differently (number for integer, untyped for a class): validation applies both, the
                # annotation comes from the declared property
                first = names[0][0]
                pattern = "^" + first if first.isalnum() else "."
                schema["patternProperties"] = {pattern: rng.choice([{"type": "number"}, {}, {"minimum": -10 ** 9},
                                                                    {"type": ["number", "object", "array", "string", "null", "boolean"]}])}
                ctx.count("pattern_overlaps_declared")
            add_valid_defaults(rng, schema)
            try:
                if not refmodel.metaschema_valid(schema):
                    continue
                root = sut.parse_direct(schema)
            except Exception as exc:  # pylint: disable=broad-except
                ctx.count("parse_failed." + type(exc).__name__)
                continue
            ctx.count("source.parsed")
            case = {"schema": schema}
            model_schema = schema
        else:
            gen = gen_dsl.Gen(rng, max_depth=2, defaults=0.0, share=0.1, renames=0.5, inheritance=0.3,
                              pattern_overlap=0.4 if idx % 2 else 0.0,
                              vocabulary_class_names=0.5 if idx % 5 == 1 else 0.0)
            if idx % 4 == 2:
                spec = gen.family(2, levels=rng.choice([2, 3]))
                ctx.count("root_is_subclass")
            else:
                spec = gen.klass(2)
            spec["kw"].pop("default", None)
            for sub in gen_dsl.class_specs(spec):
                sub["kw"].pop("default", None)
            try:
                root = gen_dsl.build(spec)
            except Exception as exc:  # pylint: disable=broad-except
                ctx.count("build_failed." + type(exc).__name__)
                continue
            ctx.count("source.dsl")
            case = {"spec": spec}
            model_schema = gen_dsl.to_schema(spec)
        lines = judge_root(ctx, sut, rng, root, model_schema, case)
        if not lines and not isinstance(root, sut.ObjectMeta):
            continue
        ctx.sample({**case, "annotations": {f"{c}.{a}": t for (c, a), t in list(lines.items())[:8]}}, every=40)


def replay(case, ctx):
    from vlib import sut  # pylint: disable=import-outside-toplevel

    if "annotation_work" in case:
        annotation_work(ctx, sut, only=case["annotation_work"])
        return
    if "shared_property" in case:
        from vlib.checks.c04 import shared_property_owners  # pylint: disable=import-outside-toplevel

        for idx in range(12):
            shared_property_owners(ctx, sut, idx)
        return
    root = sut.parse_direct(case["schema"]) if "schema" in case else gen_dsl.build(case["spec"])
    classes = list({id(c): c for c in sut.get_object_classes(root)}.values())
    names_ns = annotation_namespace(sut, classes)
    lines = generated_annotations(sut, classes)
    outcome, result, _ = sut.call(root, copy.deepcopy(case["value"]))
    ctx.evaluation()
    if outcome != "ok":
        return
    base = {k: v for k, v in case.items() if k in ("schema", "spec", "value")}
    for inst, _depth in instances_in(sut, result):
        if not check_instance(ctx, sut, inst, names_ns, base, lines):
            break
