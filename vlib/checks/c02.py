"""C02 - generated Python models accept exactly what the source schema accepts."""
import ast
import copy
import hashlib
import json
import os
import subprocess

from vlib import bootstrap
from vlib import gen_docs
from vlib import gen_values as gv
from vlib import refmodel
from vlib.runner import canon

PROPERTY = "C02"
NEEDS_JSONSCHEMA = False
TECHNIQUE = (
    "runtime monitoring of the executed program: the module text returned by statham.__main__.main is "
    "compiled and exec'd in an empty namespace (imports, definition order), an AST monitor checks single "
    "binding and definition-before-use, every generated class is compared (library == and "
    "aliasing-blind fingerprint) with the class from the direct parse, and generated root, parsed root "
    "and the Draft-6 reference model are compared on a value batch"
)
RULE = (
    "document = 1-2 JSON files with local, chained and cross-file $ref, 0-4 definitions, titled / "
    "untitled / equally-titled object schemas (identical copies and same-title-different-body "
    "variants), descriptions and titles from plain and hostile pools, plain and renaming property names; "
    "a sample also goes through `python -m statham --input --output` in a subprocess; non-trivial = "
    "document with >= 2 classes or a $ref; distinct by canonical JSON of the file set"
)
ASSUMPTIONS = [
    "non-recursive documents only; property names come from pools that do not collide under the name "
    "mapping (collisions are C12/F18)",
    "titles whose class name is empty / a constant / a name of the module's vocabulary are known "
    "finding F22 (attributed by the structural trigger on an independent transcription of the title "
    "rule); most documents are generated without such titles",
    "exact class count is judged only for documents in which every object schema is titled",
]
REQUIRED_COUNTERS = [
    "documents", "modules.executed", "classes.compared", "classes.equal", "verdicts.compared",
    "verdicts.accept", "verdicts.reject", "model.agrees", "doc.cross_file", "doc.chained_ref", "doc.same_title_same_body",
    "doc.same_title_other_body", "doc.untitled_object", "docstrings.seen", "source_kw.seen", "imports.maybe",
    "cli.subprocess", "class_count.checked", "description.hostile", "doc.sibling_variant_same_process",
    "dsl_modules", "dsl_modules.classes_equal", "annotation_work.measured",
]
VOCAB_TRIGGER = None

ANCHORS = [
    "statham.__main__:main",
    "statham.titles:_get_title_from_reference",
    "statham.schema.parser:parse",
    "statham.schema.parser:_title_format",
    "statham.schema.parser:_ParseState.dedupe",
    "statham.schema.elements.meta:ObjectMeta.python",
    "statham.schema.property:_Property.python",
    "statham.schema.helpers:custom_repr_args",
    "statham.serializers.orderer:orderer",
    "statham.serializers.python:_get_imports",
    "statham.serializers.python:_get_element_imports",
]


def plan(tier):
    if tier == "quick":
        return {"shards": 16, "docs": 40, "values": 8, "cli_every": 20, "timeout": 900, "mirror": True}
    return {"shards": 16, "docs": 1500, "values": 10, "cli_every": 60, "timeout": 7200, "mirror": True}


def f22_titles_in(resolved):
    from vlib.checks.c12 import expected_class_name, f22_trigger  # pylint: disable=import-outside-toplevel

    out = []
    for obj in gen_docs.object_schemas(resolved):
        title = obj.get("title")
        if isinstance(title, str) and f22_trigger(expected_class_name(title)):
            out.append(title)
    return out


def auto_title_segments(files):
    """Last pointer segment (the labeller's title source) of every untitled
    object-typed schema in the raw files."""
    out = []

    name_maps = ("properties", "patternProperties", "definitions", "dependencies")

    def walk(node, trail):
        # `node` sits at a schema position; the walk is by position, since members of the name maps may be
        # spelled like keywords (a property called "default" is a schema, the keyword `default` is a literal)
        if isinstance(node, list):
            for idx, val in enumerate(node):
                walk(val, trail + [str(idx)])
            return
        if not isinstance(node, dict):
            return
        types = node.get("type")
        is_obj = types == "object" or (isinstance(types, list) and "object" in types)
        if is_obj and not node.get("title"):
            segs = list(trail)
            while segs and (segs[-1] in ("items", "anyOf", "oneOf", "allOf", "not") or segs[-1].isdigit()):
                segs.pop()
            if segs:
                out.append(segs[-1])
        for key, val in node.items():
            if key in ("const", "enum", "default"):
                continue
            if key in name_maps and isinstance(val, dict):
                for name, sub in val.items():
                    walk(sub, trail + [str(key), str(name)])
            else:
                walk(val, trail + [str(key)])

    for body in files.values():
        walk(body, [])
    return out


def ast_monitor(text):
    """Single binding of class names; names used in class bodies bound earlier."""
    problems = []
    tree = ast.parse(text)
    bound = set()
    import builtins  # pylint: disable=import-outside-toplevel

    for node in tree.body:
        if isinstance(node, ast.ImportFrom):
            for alias in node.names:
                bound.add(alias.asname or alias.name)
        elif isinstance(node, ast.Import):
            for alias in node.names:
                bound.add((alias.asname or alias.name).split(".")[0])
        elif isinstance(node, ast.ClassDef):
            used = set()
            for sub in list(node.bases) + [kw.value for kw in node.keywords] + node.body:
                for inner in ast.walk(sub):
                    if isinstance(inner, ast.Name) and isinstance(inner.ctx, ast.Load):
                        used.add(inner.id)
            local = {t.target.id for t in node.body if isinstance(t, ast.AnnAssign) and isinstance(t.target, ast.Name)}
            for name in sorted(used - bound - local):
                if not hasattr(builtins, name):
                    problems.append(f"class {node.name} uses {name!r} before it is bound")
            if node.name in bound:
                problems.append(f"name {node.name!r} is bound twice")
            bound.add(node.name)
    return problems


def expected_class_count(resolved):
    from vlib.checks.c12 import expected_class_name  # pylint: disable=import-outside-toplevel

    seen = set()
    for obj in gen_docs.object_schemas(resolved):
        body = {k: v for k, v in obj.items() if k not in ("definitions", "title")}
        seen.add((expected_class_name(obj.get("title", "")), canon(body)))
    return len(seen)


def doc_features(ctx, doc):
    text = json.dumps(doc["files"])
    if len(doc["files"]) > 1:
        ctx.count("doc.cross_file")
    main = doc["files"][doc["entry"]]
    for sub in main.get("definitions", {}).values():
        if isinstance(sub, dict) and set(sub) == {"$ref"}:
            ctx.count("doc.chained_ref")
    if not doc["all_titled"]:
        ctx.count("doc.untitled_object")
    _ = text


def variant_of(doc, tag):
    """A sibling document for the same process: the same files under new names, plus - as the FIRST
    property of the root - an object schema that re-uses the title of an object nested deeper but has
    another body, so that class numbering (Foo / Foo_1) shifts between the two documents while most
    classes stay structurally equal.  Aims at state or caches that survive from one generation to the
    next."""
    text = json.dumps(doc["files"])
    rename = {name: name.replace(".json", f"_{tag}.json") for name in doc["files"]}
    for old_name, new_name in rename.items():
        text = text.replace(old_name, new_name)
    files = json.loads(text)
    entry = rename[doc["entry"]]
    root = files[entry]
    titles = []

    for node in refmodel.walk_schemas(root):
        if node is not root and node.get("type") == "object" and isinstance(node.get("title"), str):
            titles.append(node["title"])
    if not titles or not isinstance(root.get("properties"), dict):
        return None
    extra = {"type": "object", "title": titles[-1], "properties": {"vvv": {"type": "integer"}}, "required": ["vvv"]}
    root["properties"] = {"aaa": extra, **root["properties"]}
    return {"files": files, "entry": entry, "all_titled": doc["all_titled"]}


def make_doc(ctx, idx):
    rng = ctx.gen_rng
    serial = f"{ctx.stream}_{idx}"
    from vlib import gen_schemas as gs  # pylint: disable=import-outside-toplevel

    names = gs.PLAIN_NAMES + gs.RENAMING_NAMES
    if idx % 4:
        names = [n for n in names if n not in ("é", "1st")]
    if idx % 5 == 2:
        names = names + gs.KEYWORD_NAMES
    gen = gen_docs.DocGen(rng, serial, names=names, hostile_descriptions=idx % 3 == 0,
                          f22_titles=0.3 if idx % 10 == 9 else 0.0, untitled=0.0 if idx % 2 else 0.5,
                          coincident_names=0.5 if idx % 7 == 3 else 0.0)
    doc = gen.doc()
    doc["values_seed"] = rng.getrandbits(32)
    return doc


def one_doc(ctx, sut, fpm, idx, given=None, generated=False):
    rng = ctx.gen_rng
    # (file names feed the automatic titles, so they are a function of the stream and the index only)
    serial = f"{ctx.stream}_{idx}"
    f22_mode = idx % 10 == 9
    hostile = idx % 3 == 0
    from vlib import gen_schemas as gs  # pylint: disable=import-outside-toplevel

    names = gs.PLAIN_NAMES + gs.RENAMING_NAMES
    if idx % 4:
        # property names whose auto-title would itself trigger F22 are kept to a quarter of the documents
        names = [n for n in names if n not in ("é", "1st")]
    if idx % 5 == 2:
        names = names + gs.KEYWORD_NAMES
    gen = gen_docs.DocGen(rng, serial, names=names, hostile_descriptions=hostile,
                          f22_titles=0.3 if f22_mode else 0.0, untitled=0.0 if idx % 2 else 0.5,
                          coincident_names=0.5 if idx % 7 == 3 else 0.0)
    doc = given or gen.doc()
    if gen.coincident_used:
        ctx.count("doc.member_names_coinciding_with_module_names", gen.coincident_used)
    if given is not None and not generated:
        ctx.count("doc.sibling_variant_same_process")
    import random as _random  # pylint: disable=import-outside-toplevel

    rng = _random.Random(f"values/{doc.get('values_seed', idx)}")
    try:
        resolved = gen_docs.resolve(doc)
    except Exception:  # pylint: disable=broad-except
        ctx.count("generator.unresolvable_skipped")
        return
    try:
        if not refmodel.metaschema_valid(resolved):
            ctx.count("generator.metaschema_invalid_skipped")
            return
    except Exception:  # pylint: disable=broad-except
        ctx.count("generator.metaschema_error_skipped")
        return
    ctx.count("documents")
    doc_features(ctx, doc)
    objs = gen_docs.object_schemas(resolved)
    bodies = {}
    for obj in objs:
        bodies.setdefault(obj.get("title"), set()).add(canon(obj))
    if any(t is not None and len(b) > 1 for t, b in bodies.items()):
        ctx.count("doc.same_title_other_body")
    if len(objs) > len({canon(o) for o in objs}):
        ctx.count("doc.same_title_same_body")
    if hostile and any(o.get("description") in gen_docs.DESCRIPTIONS_HOSTILE for o in objs):
        ctx.count("description.hostile")
    from vlib.checks.c12 import expected_class_name, f22_trigger  # pylint: disable=import-outside-toplevel

    trigger = f22_titles_in(resolved) + [
        seg for seg in auto_title_segments(doc["files"]) if f22_trigger(expected_class_name(seg))
    ]
    finding = "F22" if trigger else None
    case = {"files": doc["files"], "entry": doc["entry"]}
    if len(objs) >= 2 or "$ref" in json.dumps(doc["files"]):
        ctx.nontrivial(canon(doc["files"]))
    directory = ctx.tmpdir()
    path = gen_docs.write_files(doc, directory)
    ctx.evaluation()
    from statham.__main__ import main  # pylint: disable=import-outside-toplevel

    try:
        try:
            text = main(path)
        except Exception as exc:  # pylint: disable=broad-except
            ctx.witness("generation_raised", case,
                        f"main() raised {type(exc).__name__}: {exc!r} on a supported non-recursive document"[:500],
                        finding=finding)
            return
        try:
            parsed = sut.st_parser.parse(sut.materialize_file(path))
        except Exception as exc:  # pylint: disable=broad-except
            ctx.witness("direct_parse_raised", case, f"{type(exc).__name__}: {exc!r}"[:400], finding=finding)
            return
        if idx % ctx.params["cli_every"] == 0:
            cli_check(ctx, directory, path, text, case, finding)
    finally:
        gen_docs.remove_files(doc, directory)
    # (1) the program itself
    try:
        code = compile(text, "<generated>", "exec")
    except SyntaxError as exc:
        ctx.witness("module_does_not_compile", case, f"SyntaxError: {exc!r}; text={text[:300]!r}"[:600],
                    finding=finding)
        return
    namespace = {}
    try:
        exec(code, namespace)  # pylint: disable=exec-used
    except Exception as exc:  # pylint: disable=broad-except
        ctx.witness("module_does_not_execute", case,
                    f"{type(exc).__name__}: {exc!r}; text={text[:300]!r}"[:600], finding=finding)
        return
    ctx.count("modules.executed")
    if '"""' in text:
        ctx.count("docstrings.seen")
    if "source=" in text:
        ctx.count("source_kw.seen")
    if "import Maybe" in text:
        ctx.count("imports.maybe")
    for problem in ast_monitor(text):
        ctx.witness("module_structure", case, problem, finding=finding)
        return
    # (2) class set and class equality
    parsed_classes = {}
    for cls in sut.get_object_classes(*parsed):
        parsed_classes.setdefault(cls.__name__, cls)
    generated = {name: obj for name, obj in namespace.items()
                 if isinstance(obj, sut.ObjectMeta) and obj is not sut.Object}
    if set(generated) != set(parsed_classes):
        ctx.witness("class_set_differs", case,
                    f"module defines {sorted(generated)}, direct parse yields {sorted(parsed_classes)}",
                    finding=finding)
        return
    if doc["all_titled"] and not trigger:
        ctx.count("class_count.checked")
        want = expected_class_count(resolved)
        if len(generated) != want:
            ctx.witness("class_count", case,
                        f"{want} distinct object schemas (by title and body) but {len(generated)} classes "
                        f"{sorted(generated)}")
            return
    for name, gen_cls in generated.items():
        ctx.count("classes.compared")
        par_cls = parsed_classes[name]
        try:
            equal = gen_cls == par_cls and par_cls == gen_cls
        except Exception as exc:  # pylint: disable=broad-except
            ctx.witness("class_eq_raised", case, f"{name}: {exc!r}")
            return
        if not equal:
            def _text(cls):
                try:
                    return cls.python()[:300]
                except Exception as err:  # pylint: disable=broad-except
                    return f"<its source cannot be rendered: {err!r}>"

            ctx.witness("class_unequal", case,
                        f"generated class {name} != parsed class: {_text(gen_cls)!r} vs {_text(par_cls)!r}",
                        finding=finding)
            return
        left, right = fpm.fp_tree(gen_cls), fpm.fp_tree(par_cls)
        if left != right:
            from vlib import monitors  # pylint: disable=import-outside-toplevel

            ctx.witness("class_config_differs", case,
                        f"generated class {name} == parsed class but configuration differs: "
                        f"{monitors.first_difference(right, left)}", finding=finding)
            return
        ctx.count("classes.equal")
    # (3) verdicts: generated root vs parsed root vs reference model
    root_parsed = parsed[0]
    if isinstance(root_parsed, sut.ObjectMeta):
        root_generated = generated.get(root_parsed.__name__)
    else:
        root_generated = None
    values = gv.batch_for_schema(rng, resolved, resolved, count=ctx.params["values"])
    observed = [hashlib.sha256(text.encode("utf8", "surrogatepass")).hexdigest()]
    for value in values:
        observed.append(sut.call(root_parsed, copy.deepcopy(value))[0])
        ctx.count("verdicts.compared")
        out_p = sut.call(root_parsed, copy.deepcopy(value))[0]
        ctx.count("verdicts.accept" if out_p == "ok" else "verdicts.reject")
        if root_generated is not None:
            out_g = sut.call(root_generated, copy.deepcopy(value))[0]
            if sut.accepted(out_g) != sut.accepted(out_p):
                ctx.witness("generated_root_verdict", {**case, "value": value},
                            f"generated root -> {out_g}, parsed root -> {out_p}", finding=finding)
                return
        allowed = refmodel.verdicts(resolved, value, resolved, curated=gv.CURATED)
        if len(allowed) == 1:
            if sut.accepted(out_p) == next(iter(allowed)):
                ctx.count("model.agrees")
            elif out_p in ("ok", "ValidationError", "TypeError"):
                ctx.witness("root_verdict_vs_schema", {**case, "value": value},
                            f"root class -> {out_p}, source schema (Draft-6 model) -> {sorted(allowed)}",
                            finding=finding)
                return
    ctx.digest(f"{idx}{'v' if given is not None else ''}", observed)
    ctx.sample({"files": doc["files"], "module_head": text[:400]}, every=15)
    return doc


def cli_check(ctx, directory, path, text, case, finding):
    out_path = path[:-5] + "_out.py"
    env = dict(os.environ, PYTHONPATH=bootstrap.REPO, PYTHONHASHSEED="0")
    try:
        proc = subprocess.run(
            [bootstrap.PYTHON, "-m", "statham", "--input", path, "--output", out_path],
            capture_output=True, text=True, timeout=120, env=env, cwd=directory,
        )
    except subprocess.TimeoutExpired:
        ctx.inconclusive_reason("CLI subprocess hit the 120 s watchdog")
        return
    ctx.count("cli.subprocess")
    try:
        if proc.returncode != 0:
            ctx.witness("cli_failed", case, f"exit {proc.returncode}: {proc.stderr[-300:]}", finding=finding)
            return
        try:
            with open(out_path, encoding="utf8") as handle:
                written = handle.read()
        except OSError:
            ctx.witness("cli_output_differs", case, "`python -m statham --output` exited 0 but wrote no file",
                        finding=finding)
            return
        if written != text:
            ctx.witness("cli_output_differs", case, "`python -m statham` wrote a different module than main()",
                        finding=finding)
    finally:
        try:
            os.remove(out_path)
        except OSError:
            pass


def dsl_module(ctx, sut, fpm, idx):
    """The generator is also used on trees written in the DSL: the module must execute with the imports
    it declares and define classes equal to the originals (covers shapes no document can express, e.g. an
    empty tuple of items, shared elements).  Subclassing is left out on purpose: no schema document yields a
    subclass, so the statement does not cover it (observed and noted in DESIGN.md: the orderer does not
    count a base class as a dependency, so `class K3(K2)` may be emitted before K2)."""
    import random as _random  # pylint: disable=import-outside-toplevel

    from vlib import gen_dsl  # pylint: disable=import-outside-toplevel

    rng = _random.Random(f"dsl/{ctx.seed}/{ctx.stream}/{idx}")
    gen = gen_dsl.Gen(rng, max_depth=2, share=0.2, renames=0.4, inheritance=0.0, defaults=0.2)
    spec = gen.klass(2)
    if rng.random() < 0.5:
        # properties aimed at the import inference: bare List, nested Lists, Any, Union, Maybe
        spec["props"]["tuple_closed"] = {"el": {"t": "Array", "items": [], "kw": {"additionalItems": False}},
                                         "required": rng.random() < 0.5, "source": None}
        if rng.random() < 0.5:
            spec["props"] = {"tuple_closed": spec["props"]["tuple_closed"]}
    try:
        root = gen_dsl.build(spec)
    except Exception as exc:  # pylint: disable=broad-except
        ctx.count("build_failed." + type(exc).__name__)
        return
    ctx.evaluation()
    ctx.count("dsl_modules")
    case = {"spec": spec}
    try:
        text = sut.serialize_python(root)
        namespace = {}
        exec(compile(text, "<generated>", "exec"), namespace)  # pylint: disable=exec-used
    except Exception as exc:  # pylint: disable=broad-except
        from vlib.checks.c12 import f22_trigger  # pylint: disable=import-outside-toplevel

        ctx.witness("dsl_module_does_not_execute", case,
                    f"{type(exc).__name__}: {exc!r}; text={text[:300] if 'text' in dir() else ''!r}"[:600],
                    finding=None)
        _ = f22_trigger
        return
    for problem in ast_monitor(text):
        ctx.witness("module_structure", case, problem)
        return
    classes = {c.__name__: c for c in sut.get_object_classes(root)}
    for name, cls in classes.items():
        other = namespace.get(name)
        if other is None or not (other == cls and cls == other) or fpm.fp_tree(other) != fpm.fp_tree(cls):
            mangled = any(attr.startswith("__") and not attr.endswith("__") for attr in (cls.properties or {}))
            ctx.witness("dsl_class_differs", case, f"class {name} of the executed module differs from the original",
                        finding="F31" if mangled else None)
            return
    ctx.count("dsl_modules.classes_equal")


def run_shard(ctx):
    from vlib import fingerprint as fpm  # pylint: disable=import-outside-toplevel
    from vlib import sut  # pylint: disable=import-outside-toplevel

    # "for every supported schema document the module text is produced": generation must finish - judged in
    # entries into the annotation routines per module, not on the clock (the routine lives with C19's code)
    from vlib.checks.c19 import annotation_work  # pylint: disable=import-outside-toplevel

    if not ctx.mirror:
        annotation_work(ctx, sut)
    for idx in range(ctx.params["docs"] * 2):
        dsl_module(ctx, sut, fpm, idx)

    # documents are generated up front (generation never depends on what the library did), then handled
    # in stream order - reversed in the mirror shard
    cases = []
    for idx in range(ctx.params["docs"]):
        cases.append(make_doc(ctx, idx))
    for idx, doc in ctx.ordered(cases):
        done = one_doc(ctx, sut, fpm, idx, given=doc, generated=True)
        if done is not None and idx % 2 == 1:
            sibling = variant_of(doc, "v")
            if sibling is not None:
                one_doc(ctx, sut, fpm, idx, given=sibling)


def replay(case, ctx):
    from vlib import fingerprint as fpm  # pylint: disable=import-outside-toplevel
    from vlib import sut  # pylint: disable=import-outside-toplevel

    if "annotation_work" in case:
        from vlib.checks.c19 import annotation_work  # pylint: disable=import-outside-toplevel

        annotation_work(ctx, sut, only=case["annotation_work"])
        return
    if "spec" in case:
        from vlib import gen_dsl  # pylint: disable=import-outside-toplevel

        root = gen_dsl.build(case["spec"])
        ctx.evaluation()
        try:
            text = sut.serialize_python(root)
            exec(compile(text, "<generated>", "exec"), {})  # pylint: disable=exec-used
        except Exception as exc:  # pylint: disable=broad-except
            ctx.witness("dsl_module_does_not_execute", case, f"{type(exc).__name__}: {exc!r}"[:300])
        return
    # re-run the monitors on the recorded file set (fresh file names: json_ref_dict caches by URI)
    suffix = f"r{os.getpid()}"
    rename = {name: name.replace(".json", f"_{suffix}.json") for name in case["files"]}
    text = json.dumps(case["files"])
    for old, new in rename.items():
        text = text.replace(old, new)
    files = json.loads(text)
    doc = {"files": files, "entry": rename[case["entry"]], "all_titled": False}

    one_doc(ctx, sut, fpm, 1, given=doc)
