"""C11 - class declaration order is a complete topological order; cycles refused."""
import itertools

PROPERTY = "C11"
TECHNIQUE = (
    "runtime monitoring: post-condition oracle on orderer() (permutation, edge order, cycle <=> raise) "
    "over exhaustively enumerated small dependency graphs and random larger ones; the oracle knows the "
    "graph it built and never calls get_children"
)
RULE = (
    "case = (digraph of named classes, keyword position of each edge, roots passed to orderer); "
    "exhaustive: all digraphs on <=3 classes incl. self-loops and all loop-free digraphs on 4 classes, "
    "edge positions assigned round-robin over 21 placements; random: up to 14 classes, chains to 120, "
    "fans; non-trivial = at least 2 classes and 1 edge; distinct by (edges, positions, roots)"
)
ASSUMPTIONS = [
    "class names are unique (documented assumption of orderer)",
    "cycles are made the only way the DSL allows: assigning properties / class keywords after creation",
    "termination is observed as return within the shard watchdog (inconclusive otherwise)",
]
PLACEMENTS = [
    "properties", "items", "tuple", "additionalItems", "contains", "anyOf", "oneOf", "allOf", "not",
    "patternProperties", "additionalProperties", "propertyNames", "dependencies",
    "deep_array_anyof_not", "el_properties", "el_patternProperties", "el_additionalProperties",
    "el_propertyNames", "el_dependencies", "el_items", "el_contains",
]
REQUIRED_COUNTERS = ["acyclic.ordered", "cyclic.refused", "multi_root", "graphs.with_decoy_property_names", "twice_reachable_graphs", "graphs.with_class_named_Object", "graphs.with_shared_wrapper_objects"] + [f"edge.{p}" for p in PLACEMENTS]
EXHAUSTIVE_SUBSPACES = {
    "quick": ["all 2^9 digraphs on 3 named classes incl. self-loops", "all 2^12 loop-free digraphs on 4 classes",
              "all digraphs on 1 and 2 classes"],
    "thorough": ["all 2^9 digraphs on 3 named classes incl. self-loops",
                 "all 2^12 loop-free digraphs on 4 classes", "all digraphs on 1 and 2 classes"],
}

ANCHORS = [
    "statham.serializers.orderer:orderer",
    "statham.serializers.orderer:get_children",
    "statham.serializers.orderer:_get_path",
    "statham.serializers.orderer:get_object_classes",
]


WRAPPERS = {
    "array": lambda E, c: E.Array(c), "anyof_str": lambda E, c: E.AnyOf(E.String(), c),
    "elem_prop": lambda E, c: E.Element(properties={"p": E.Property(c)}), "not": lambda E, c: E.Not(c),
    # the class twice below one entry point
    "items_and_contains": lambda E, c: E.Element(items=c, contains=c), "anyof_twice": lambda E, c: E.AnyOf(c, c),
    "tuple_twice": lambda E, c: E.Array([c, c]),
    "props_twice": lambda E, c: E.Element(properties={"p": E.Property(c), "q": E.Property(c)}),
}
DECOY_NAMES = ["properties", "additionalProperties", "patternProperties", "propertyNames", "dependencies", "items",
               "additionalItems", "contains", "elements", "element", "default", "required"]


def plan(tier):
    if tier == "quick":
        return {"shards": 16, "random": 100, "long_chains": [5, 20, 40], "timeout": 900}
    return {"shards": 16, "random": 6000, "long_chains": [5, 20, 60, 120], "timeout": 7200}


SHARED_WRAPPERS = {}
SHARE_WRAPPERS = [False]


def add_edge(sut, classes, src, dst, placement, serial):
    """Make class `src` depend on class `dst` through `placement`."""
    E = sut  # namespace
    owner, target = classes[src], classes[dst]
    if SHARE_WRAPPERS[0] and placement in ("items", "anyOf", "contains", "tuple", "additionalItems", "oneOf", "allOf",
                                          "deep_array_anyof_not"):
        # ONE wrapper object (not two equal ones) held by every class that depends on `dst` this way: a walk
        # that remembers elements it has expanded must still credit the dependency to each owner
        key = (id(classes), dst)
        if key not in SHARED_WRAPPERS:
            SHARED_WRAPPERS[key] = [lambda: E.Array(target), lambda: E.AnyOf(E.String(), target),
                                    lambda: E.Array(E.String(), contains=target)][dst % 3]()
        owner.properties[f"e{serial}"] = E.Property(SHARED_WRAPPERS[key])
        return
    name = f"e{serial}"
    # mapping keys are arbitrary strings: every other edge sits under a key with dots in it (a walk that
    # re-reads keys as dotted paths loses those)
    dotted = serial % 2 == 1
    key = f"v1.{name}.x" if dotted else name

    def prop(element):
        owner.properties[name] = E.Property(element)

    if placement == "properties":
        prop(target)
    elif placement == "items":
        prop(E.Array(target))
    elif placement == "tuple":
        prop(E.Array([E.String(), target]))
    elif placement == "additionalItems":
        prop(E.Array([E.String()], additionalItems=target))
    elif placement == "contains":
        prop(E.Array(E.String(), contains=target))
    elif placement == "anyOf":
        prop(E.AnyOf(E.String(), target))
    elif placement == "oneOf":
        prop(E.OneOf(target, E.String()))
    elif placement == "allOf":
        prop(E.AllOf(E.Element(), target))
    elif placement == "not":
        prop(E.Not(target))
    elif placement == "patternProperties":
        current = owner.patternProperties
        current = dict(current) if isinstance(current, dict) else {}
        current[f"^plugin\\.{name}\\..*$" if dotted else f"^{name}"] = target
        owner.patternProperties = current
    elif placement == "additionalProperties":
        if isinstance(owner.additionalProperties, bool):
            owner.additionalProperties = target
        else:
            prop(E.Element(additionalProperties=target))
    elif placement == "propertyNames":
        if isinstance(owner.propertyNames, E.NotPassed):
            owner.propertyNames = target
        else:
            prop(E.Element(propertyNames=target))
    elif placement == "dependencies":
        current = owner.dependencies
        current = dict(current) if isinstance(current, dict) else {}
        current[key] = target
        owner.dependencies = current
    elif placement == "deep_array_anyof_not":
        prop(E.Array(E.AnyOf(E.Not(target), E.String())))
    elif placement == "el_properties":
        prop(E.Element(properties={("billing.address" if dotted else "x"): E.Property(target)}))
    elif placement == "el_patternProperties":
        prop(E.Element(patternProperties={("^x-.*\\.y$" if dotted else "^a"): target}))
    elif placement == "el_additionalProperties":
        prop(E.Element(additionalProperties=target))
    elif placement == "el_propertyNames":
        prop(E.Element(propertyNames=target))
    elif placement == "el_dependencies":
        prop(E.Element(dependencies={("k.l" if dotted else "k"): target, "j": ["k"]}))
    elif placement == "el_items":
        prop(E.Element(items=[target, E.Integer()]))
    elif placement == "el_contains":
        prop(E.Element(contains=target))
    else:
        raise ValueError(placement)


def reachable(edges, roots, count):
    adj = {i: set() for i in range(count)}
    for src, dst in edges:
        adj[src].add(dst)
    seen = set()
    stack = list(roots)
    while stack:
        node = stack.pop()
        if node in seen:
            continue
        seen.add(node)
        stack.extend(adj[node])
    return seen, adj


def has_cycle(adj, nodes):
    color = {}

    def visit(node):
        color[node] = 1
        for nxt in adj[node]:
            if nxt not in nodes:
                continue
            if color.get(nxt) == 1:
                return True
            if nxt not in color and visit(nxt):
                return True
        color[node] = 2
        return False

    return any(node not in color and visit(node) for node in nodes)


def run_graph(ctx, sut, count, edges, placements, roots, tag, root_wrapper=None):
    """Build the classes, call orderer, judge."""
    names = [f"K{i}" for i in range(count)]
    renamed = None
    if count >= 2 and (count * 7 + len(edges)) % 11 == 0:
        # a user's class may be called like the library's own base class (a schema titled "object")
        renamed = (count + len(edges)) % count
        names[renamed] = "Object"
        ctx.count("graphs.with_class_named_Object")
    classes = [sut.ObjectMeta(names[i], (sut.Object,), sut_classdict(sut)) for i in range(count)]
    SHARED_WRAPPERS.clear()
    SHARE_WRAPPERS[0] = (count + 2 * len(edges)) % 4 == 1
    if SHARE_WRAPPERS[0]:
        ctx.count("graphs.with_shared_wrapper_objects")
    if (count + len(edges)) % 3 == 0:
        # decoys: properties whose NAMES are the segments the walk itself looks up ("properties",
        # "additionalProperties", "items", ...), holding plain leaves - a walk which subscripts or reads a
        # class by such a name must still find the keyword, not the property
        for idx, cls in enumerate(classes):
            for step in range(2):
                cls.properties[DECOY_NAMES[(idx * 2 + step + count) % len(DECOY_NAMES)]] = sut.Property(sut.String())
        ctx.count("graphs.with_decoy_property_names")
    for serial, ((src, dst), placement) in enumerate(zip(edges, placements)):
        add_edge(sut, classes, src, dst, placement, serial)
        ctx.count("edge." + placement)
    root_elements = []
    for root in roots:
        if root_wrapper and root_wrapper[0] == root:
            root_elements.append(WRAPPERS[root_wrapper[1]](sut, classes[root]))
        else:
            root_elements.append(classes[root])
    seen, adj = reachable(edges, roots, count)
    cyclic = has_cycle(adj, seen)
    case = {"classes": count, "edges": [list(e) for e in edges], "placements": list(placements),
            "roots": list(roots), "tag": tag, "root_wrapper": list(root_wrapper) if root_wrapper else None}
    ctx.evaluation()
    if count >= 2 and edges:
        ctx.nontrivial(repr((count, edges, placements, roots, bool(root_wrapper))))
    if len(roots) > 1:
        ctx.count("multi_root")
    try:
        order = list(sut.orderer(*root_elements))
        outcome, exc = "ok", None
    except BaseException as err:  # pylint: disable=broad-except
        if isinstance(err, (KeyboardInterrupt, SystemExit)):
            raise
        order, outcome, exc = None, sut.outcome_class(err), err
    if cyclic and outcome == "SchemaParseError":
        # "instead of yielding a partial ... order": a consumer stepping through the routine one class at a time
        # receives nothing before the refusal either
        stepped = []
        try:
            for cls in sut.orderer(*root_elements):
                stepped.append(cls.__name__)
        except BaseException as err:  # pylint: disable=broad-except
            if isinstance(err, (KeyboardInterrupt, SystemExit)):
                raise
        ctx.count("cyclic.stepped_through")
        if stepped:
            ctx.witness("partial_order_before_refusal", case,
                        f"cyclic dependencies: the routine yielded {stepped} before raising")
            return
    if cyclic:
        if outcome == "SchemaParseError":
            ctx.count("cyclic.refused")
        else:
            ctx.witness("cycle_not_refused", case,
                        f"cyclic dependencies among reachable classes: expected SchemaParseError, got "
                        f"{outcome} {exc!r} order={[c.__name__ for c in order] if order else None}")
        return
    if outcome != "ok":
        ctx.witness("acyclic_refused", case, f"acyclic graph raised {outcome}: {exc!r}")
        return
    index_of = {id(cls): i for i, cls in enumerate(classes)}
    names = [f"K{index_of[id(cls)]}" if id(cls) in index_of else f"?{cls.__name__}" for cls in order]
    expected = {f"K{i}" for i in seen}
    problems = []
    if len(names) != len(set(names)):
        problems.append("a class is yielded twice")
    if set(names) != expected:
        problems.append(f"yielded set {sorted(set(names))} != reachable set {sorted(expected)}")
    position = {name: idx for idx, name in enumerate(names)}
    for src, dst in edges:
        if src in seen and f"K{src}" in position and f"K{dst}" in position:
            if position[f"K{dst}"] > position[f"K{src}"]:
                problems.append(f"K{src} yielded before its dependency K{dst}")
    for cls, name in zip(order, names):
        if name.startswith("?"):
            problems.append(f"{name[1:]} yielded object is not one of the classes of the graph")
    if problems:
        ctx.witness("bad_order", case, "; ".join(problems[:4]) + f" order={names}")
    else:
        ctx.count("acyclic.ordered")
    ctx.sample({**case, "order": names}, every=400)


def sut_classdict(sut):
    from statham.schema.elements.meta import ObjectClassDict  # pylint: disable=import-outside-toplevel

    _ = sut
    return ObjectClassDict()


def exhaustive(ctx, sut):
    serial = 0
    for count in (1, 2, 3):
        pairs = [(a, b) for a in range(count) for b in range(count)]
        for mask in range(2 ** len(pairs)):
            serial += 1
            if serial % ctx.nshards != ctx.shard:
                continue
            edges = [pair for bit, pair in enumerate(pairs) if mask >> bit & 1]
            placements = [PLACEMENTS[(serial + k) % len(PLACEMENTS)] for k in range(len(edges))]
            run_graph(ctx, sut, count, edges, placements, [0], f"exh{count}")
            if mask % 7 == 0 and count > 1:
                run_graph(ctx, sut, count, edges, placements, list(range(count)), f"exh{count}-allroots")
    pairs = [(a, b) for a in range(4) for b in range(4) if a != b]
    for mask in range(2 ** len(pairs)):
        serial += 1
        if serial % ctx.nshards != ctx.shard:
            continue
        edges = [pair for bit, pair in enumerate(pairs) if mask >> bit & 1]
        placements = [PLACEMENTS[(serial * 5 + k) % len(PLACEMENTS)] for k in range(len(edges))]
        run_graph(ctx, sut, 4, edges, placements, [0], "exh4")


def random_graphs(ctx, sut):
    rng = ctx.rng
    for idx in range(ctx.params["random"]):
        kind = idx % 6
        if kind == 0:  # chain
            count = rng.choice(ctx.params["long_chains"]) if idx % 12 == 0 else rng.randint(2, 14)
            edges = [(i, i + 1) for i in range(count - 1)]
            if rng.random() < 0.3:
                edges.append((count - 1, rng.randrange(count)))
        elif kind == 1:  # fan / shared leaves
            count = rng.randint(3, 14)
            edges = [(0, i) for i in range(1, count)] + [
                (i, count - 1) for i in range(1, count - 1) if rng.random() < 0.5
            ]
        elif kind == 2:  # random DAG (edges go upward in index, shuffled labels)
            count = rng.randint(2, 14)
            perm = list(range(count))
            rng.shuffle(perm)
            edges = [
                (perm[a], perm[b]) for a, b in itertools.combinations(range(count), 2)
                if rng.random() < 0.3
            ]
        else:  # random digraph
            count = rng.randint(2, 10)
            edges = [
                (a, b) for a in range(count) for b in range(count)
                if rng.random() < (0.25 if a != b else 0.04)
            ]
        edges = list(dict.fromkeys(edges))
        if rng.random() < 0.2 and edges:
            edges.append(rng.choice(edges))  # a parallel edge through another placement
        placements = [rng.choice(PLACEMENTS) for _ in edges]
        roots = [0] if rng.random() < 0.6 else rng.sample(range(count), k=rng.randint(1, min(count, 4)))
        wrapper = None
        if rng.random() < 0.25:
            wrapper = (rng.choice(roots), rng.choice(sorted(WRAPPERS)))
            ctx.count("root_is_non_object_element")
        if rng.random() < 0.1:
            roots = roots + [rng.choice(roots)]     # the same entry point handed in twice
        run_graph(ctx, sut, count, edges, placements, roots, "random", wrapper)
    # classes reachable along two paths although nothing depends on anything ("nothing to sort")
    serial = 0
    for count in (1, 2, 3):
        for edges in ([], [(0, count - 1)] if count > 1 else []):
            for roots in ([0, 0], list(range(count)) + [0], [0]):
                for name in [None] + sorted(WRAPPERS):
                    serial += 1
                    if serial % ctx.nshards != ctx.shard:
                        continue
                    ctx.count("twice_reachable_graphs")
                    run_graph(ctx, sut, count, list(edges), ["properties"] * len(edges), list(roots), "twice",
                              (0, name) if name else None)


def anonymous_cycles(ctx, sut):
    """Plain (non-class) elements that contain themselves, built by assignment as the documentation builds
    recursive models: no object class depends on itself, so the classes behind them are ordered as usual - the
    walk must terminate on the element cycle."""
    shapes = ["array_anyof", "array_tuple", "element_additional", "not_not", "array_contains"]
    for number, shape in enumerate(shapes):
        if number % ctx.nshards != ctx.shard:
            continue
        leaf = sut.ObjectMeta("Leaf", (sut.Object,), sut_classdict(sut))
        if shape == "array_anyof":
            loop = sut.Array(sut.Integer())
            loop.items = sut.AnyOf(sut.Integer(), leaf, loop)
        elif shape == "array_tuple":
            loop = sut.Array([sut.String()])
            loop.items = [sut.String(), leaf, loop]
        elif shape == "element_additional":
            loop = sut.Element(properties={"leaf": sut.Property(leaf)})
            loop.additionalProperties = loop
        elif shape == "not_not":
            loop = sut.Element(contains=leaf)
            loop.propertyNames = sut.Not(sut.Not(loop))
        else:
            loop = sut.Array(leaf)
            loop.contains = sut.AllOf(loop, sut.Element())
        root = sut.ObjectMeta("Grid", (sut.Object,), sut_classdict(sut))
        root.properties["cells"] = sut.Property(loop)
        ctx.evaluation()
        ctx.count("anonymous_cycles")
        case = {"anonymous_cycle": shape}
        for entry in ([root], [loop, root]):
            try:
                order = [cls.__name__ for cls in sut.orderer(*entry)]
            except BaseException as err:  # pylint: disable=broad-except
                if isinstance(err, (KeyboardInterrupt, SystemExit)):
                    raise
                ctx.witness("acyclic_refused", case, f"no class depends on itself, yet the orderer raised "
                                                     f"{type(err).__name__}: {err!r}"[:300])
                break
            wanted = ["Leaf", "Grid"] if entry[0] is root else None
            if (wanted and order != wanted) or sorted(order) != ["Grid", "Leaf"] or order.index("Leaf") > order.index("Grid"):
                ctx.witness("bad_order", case, f"expected Leaf before Grid, each once; got {order}")
                break


def wide_graph(ctx, sut):
    """Very many classes with nothing between them but one root (sibling members of one document): the number
    of classes must not be bounded by the interpreter's stack."""
    if ctx.shard != 0:
        return
    count = ctx.params.get("wide", 1200)
    edges = [(0, i) for i in range(1, count)]
    ctx.count("wide_graphs")
    run_graph(ctx, sut, count, edges, ["properties"] * len(edges), [0], "wide")


OPTIMISED = r'''
import json, sys
sys.path.insert(0, sys.argv[1])
from statham.schema.elements import AnyOf, Array, Element, Not, Object
from statham.schema.elements.meta import ObjectClassDict, ObjectMeta
from statham.schema.property import Property
from statham.serializers.orderer import orderer
from statham.schema.exceptions import SchemaParseError

def model(name):
    return ObjectMeta(name, (Object,), ObjectClassDict())

out = {}
for shape in ("self", "mutual_items", "anyof", "not", "pattern", "acyclic"):
    a, b, leaf = model("A"), model("B"), model("Leaf")
    a.properties["leaf"] = Property(leaf)
    if shape == "self":
        a.properties["me"] = Property(a)
    elif shape == "mutual_items":
        a.properties["b"] = Property(Array(b)); b.properties["a"] = Property(Array(a))
    elif shape == "anyof":
        a.properties["b"] = Property(AnyOf(b, Element())); b.properties["a"] = Property(a)
    elif shape == "not":
        a.properties["b"] = Property(Not(b)); b.properties["a"] = Property(Not(a))
    elif shape == "pattern":
        a.patternProperties = {"^x": b}; b.additionalProperties = a
    else:
        a.properties["b"] = Property(b)
    try:
        out[shape] = ["ok", [cls.__name__ for cls in orderer(a)]]
    except SchemaParseError:
        out[shape] = ["SchemaParseError", []]
    except BaseException as exc:
        out[shape] = [type(exc).__name__, []]
print(json.dumps({"debug": __debug__, "out": out}))
'''


def optimised_process(ctx):
    """The same routine in a process started with `-O` / `-OO` (assert statements are compiled away there):
    cycles are refused, acyclic graphs ordered, exactly as in a normal process."""
    if ctx.shard != 1 % ctx.nshards:
        return
    import json  # pylint: disable=import-outside-toplevel
    import subprocess  # pylint: disable=import-outside-toplevel

    from vlib import bootstrap  # pylint: disable=import-outside-toplevel

    for flag in ("-O", "-OO"):
        proc = subprocess.run([bootstrap.PYTHON, flag, "-c", OPTIMISED, bootstrap.REPO], capture_output=True,
                              text=True, timeout=300, check=False)
        if proc.returncode != 0:
            ctx.count("optimised_process.failed")
            continue
        report = json.loads(proc.stdout.strip().splitlines()[-1])
        ctx.evaluation()
        ctx.count("optimised_process.runs")
        for shape, (outcome, order) in report["out"].items():
            ctx.count("optimised_process.graphs")
            if shape == "acyclic":
                if outcome != "ok" or sorted(order) != ["A", "B", "Leaf"] or order.index("A") < order.index("B"):
                    ctx.witness("bad_order", {"optimised_process": flag, "shape": shape},
                                f"python {flag}: acyclic graph gave {outcome} {order}")
            elif outcome != "SchemaParseError":
                ctx.witness("cycle_not_refused", {"optimised_process": flag, "shape": shape},
                            f"python {flag}: cyclic dependencies ({shape}) gave {outcome} {order} instead of SchemaParseError")


def run_shard(ctx):
    from vlib import sut  # pylint: disable=import-outside-toplevel

    optimised_process(ctx)
    exhaustive(ctx, sut)
    random_graphs(ctx, sut)
    anonymous_cycles(ctx, sut)
    wide_graph(ctx, sut)


def replay(case, ctx):
    from vlib import sut  # pylint: disable=import-outside-toplevel

    if "optimised_process" in case:
        ctx.shard, ctx.nshards = 0, 1
        optimised_process(ctx)
        return
    if "anonymous_cycle" in case:
        ctx.shard, ctx.nshards = 0, 1
        anonymous_cycles(ctx, sut)
        return
    wrapper = tuple(case["root_wrapper"]) if case.get("root_wrapper") else None
    run_graph(ctx, sut, case["classes"], [tuple(e) for e in case["edges"]], case["placements"],
              case["roots"], "replay", wrapper)
