"""C20 - unsupported features are refused, never silently mis-modelled."""
import copy
import json
import os

from vlib import gen_schemas as gs
from vlib import refmodel

PROPERTY = "C20"
TECHNIQUE = (
    "runtime monitoring: escape/outcome monitor on parse_element, parse and statham.__main__.main over "
    "the full matrix position x unsupported keyword x host schema, plus reference-cycle documents; "
    "each case is paired with its control (same input without the offending part must parse)"
)
RULE = (
    "case = (host schema, schema position or chain of positions, unsupported keyword) or a document "
    "with a $ref cycle of length 1..30 through a schema position; every case has a control; "
    "non-trivial = all of them (a bare root keyword is the only thing the test-suite has); distinct by "
    "canonical JSON of the document"
)
ASSUMPTIONS = [
    "positions are the ones statham interprets as schemas; keywords inside const/enum/default literals "
    "and property *names* equal to a keyword are negative controls that must parse",
    "cycles are built from local and cross-file $ref, through schema positions and through default / const / "
    "enum literals (the loader resolves references there too); cycles through other keys statham does not "
    "interpret are not judged either way",
]
UNSUPPORTED = {
    "if": {"type": "string"},
    "then": {"minLength": 1},
    "else": {"type": "integer"},
    "$defs": {"x": {"type": "string"}},
    "unevaluatedItems": False,
    "unevaluatedProperties": False,
}
POSITIONS = [
    "root", "properties", "properties_typed", "patternProperties", "additionalProperties",
    "propertyNames", "dependencies", "items", "tuple_first", "tuple_last", "additionalItems_tuple",
    "additionalItems_plain", "additionalItems_single_items", "contains", "anyOf", "oneOf", "allOf", "not", "typelist", "required_sibling",
    "definitions", "properties_shadowed", "deep_chain", "properties_keyword_named",
]
REQUIRED_COUNTERS = (
    ["refused", "control_parsed", "cycle.refused", "negative_control_parsed", "route.main", "route.parse",
     "route.parse_element", "concurrent_parse.refusals"]
    + [f"pos.{p}" for p in POSITIONS] + [f"kw.{k}" for k in UNSUPPORTED]
)
EXHAUSTIVE_SUBSPACES = {
    "quick": ["every position (21) x every unsupported keyword (6), each with several host schemas"],
    "thorough": ["every position (20) x every unsupported keyword (6), each with many host schemas",
                 "cycle lengths 1..30 through each of 12 positions"],
}

ANCHORS = [
    "statham.schema.parser:parse_element",
    "statham.schema.parser:parse",
    "statham.schema.exceptions:FeatureNotImplementedError.unsupported_keywords",
    "statham.serializers.orderer:orderer",
]


def plan(tier):
    if tier == "quick":
        return {"shards": 8, "hosts": 3, "chains": 30, "cycles": 20, "timeout": 900}
    return {"shards": 16, "hosts": 40, "chains": 600, "cycles": 320, "timeout": 7200}


def place(inner, position, rng, title="Host"):
    """Root document in which `inner` sits at `position`."""
    if position == "root":
        return inner
    if position == "properties":
        return {"properties": {"p": inner, "q": {"type": "string"}}}
    if position == "properties_keyword_named":
        # the member is CALLED like an annotation keyword - it is a schema all the same
        name = rng.choice(["examples", "$comment", "default", "enum", "const", "definitions", "description"])
        return {"type": "object", "title": title, "properties": {name: inner, "q": {"type": "string"}}}
    if position == "properties_shadowed":
        # two JSON names that map onto ONE Python attribute: the first declaration is shadowed by the
        # second - its schema is part of the document all the same
        first, second = rng.choice([("user-id", "user_id"), ("a b", "a_b"), ("class", "class_"), ("x.y", "x_full_stop_y")])
        return {"type": "object", "title": title, "properties": {first: inner, second: {"type": "string"}}}
    if position == "deep_chain":
        # far below the root, but well inside the depth the parser itself copes with
        doc = inner
        for level in range(rng.choice([120, 200, 252])):
            doc = [{"items": doc}, {"contains": doc}, {"propertyNames": doc}, {"not": doc}][level % 4]
        return doc
    if position == "properties_typed":
        return {"type": "object", "title": title, "properties": {"p": inner}, "required": ["p"]}
    if position == "patternProperties":
        return {"patternProperties": {"^a": inner}}
    if position == "additionalProperties":
        return {"properties": {"q": {"type": "string"}}, "additionalProperties": inner}
    if position == "propertyNames":
        return {"propertyNames": inner}
    if position == "dependencies":
        return {"dependencies": {"q": inner, "r": ["q"]}}
    if position == "items":
        return {"type": "array", "items": inner}
    if position == "tuple_first":
        return {"items": [inner, {"type": "string"}]}
    if position == "tuple_last":
        return {"type": "array", "items": [{"type": "string"}, True, inner]}
    if position == "additionalItems_tuple":
        return {"items": [{"type": "string"}], "additionalItems": inner}
    if position == "additionalItems_plain":
        return {"additionalItems": inner}
    if position == "additionalItems_single_items":
        # (Draft 6 ignores additionalItems next to a single-schema items, but statham reads it as a schema)
        return {"type": "array", "items": rng.choice([{"type": "string"}, True, {}]), "additionalItems": inner}
    if position == "default_literal":
        return {"default": {"k": inner}}
    if position == "const_literal":
        return {"const": [inner]}
    if position == "enum_literal":
        return {"enum": [1, {"x": inner}]}
    if position == "contains":
        return {"contains": inner}
    if position in ("anyOf", "oneOf", "allOf"):
        branches = [{"type": "string"}, inner, {"type": "null"}]
        rng.shuffle(branches)
        return {position: branches}
    if position == "not":
        return {"not": inner}
    if position == "typelist":
        return {"type": ["object", "array"], "title": title, "properties": {"p": inner}, "items": inner}
    if position == "required_sibling":
        return {"type": "object", "title": title, "required": ["zz"], "additionalProperties": inner}
    if position == "definitions":
        return {"type": "string", "definitions": {"d": inner}}
    raise ValueError(position)


def host_schema(rng):
    """A supported schema dict (never bool) to carry the offending keyword."""
    for _ in range(20):
        cand, _tag = gs.any_schema(rng, gs.Opts(max_depth=2, formats=False))
        if isinstance(cand, dict) and "$ref" not in json.dumps(cand) and refmodel.metaschema_valid(cand):
            return cand
    return {"type": "string"}


def attempt(sut, doc, route, ctx, idx):
    """Run one route -> outcome class."""
    import warnings  # pylint: disable=import-outside-toplevel

    try:
        with warnings.catch_warnings():
            warnings.simplefilter("ignore")
            if route == "parse_element":
                sut.parse_direct(doc)
            elif route == "parse":
                sut.st_parser.parse(sut.add_titles(copy.deepcopy(doc)))
            else:
                path = os.path.join(ctx.tmpdir(), f"c20_{ctx.shard}_{idx}.json")
                with open(path, "w", encoding="utf8") as handle:
                    json.dump(doc, handle)
                try:
                    from statham.__main__ import main  # pylint: disable=import-outside-toplevel

                    main(path)
                finally:
                    os.remove(path)
        return "ok", None
    except BaseException as exc:  # pylint: disable=broad-except
        if isinstance(exc, (KeyboardInterrupt, SystemExit)):
            raise
        return sut.outcome_class(exc), exc


def schema_depth(node):
    depth, stack = 0, [(node, 0)]
    while stack:
        item, level = stack.pop()
        depth = max(depth, level)
        if isinstance(item, dict):
            stack.extend((val, level + 1) for val in item.values())
        elif isinstance(item, list):
            stack.extend((val, level + 1) for val in item)
    return depth


def check_refusal(ctx, sut, doc, control, routes, label, idx):
    for route in routes:
        ctx.evaluation()
        ctx.count("route." + route)
        outcome, exc = attempt(sut, doc, route, ctx, f"{idx}a")
        ctrl_outcome, ctrl_exc = attempt(sut, control, route, ctx, f"{idx}b")
        if ctrl_outcome != "ok":
            # the control is a supported schema: failing to parse it would make
            # "refuse everything" pass.  Known orderer/name issues are not C20's.
            ctx.count("control_not_parsed." + ctrl_outcome)
            if schema_depth(control) > 80:
                # beyond what this interpreter's stack lets the parser (or the harness) walk: out of the
                # statement's domain, not judged
                ctx.count("deep_chain.beyond_budget_skipped")
                continue
            if route != "main":
                ctx.witness(
                    "control_refused", {"doc": control, "route": route, "label": label},
                    f"control (supported schema, offending part removed) raised {ctrl_outcome}: {ctrl_exc!r}"[:500],
                )
            continue
        ctx.count("control_parsed")
        if outcome == "FeatureNotImplementedError":
            ctx.count("refused")
        else:
            ctx.witness(
                "not_refused", {"doc": doc, "route": route, "label": label},
                f"expected FeatureNotImplementedError, got {outcome}: {exc!r}"[:500],
            )


def matrix(ctx, sut):
    rng = ctx.rng
    cells = [(p, k) for p in POSITIONS for k in UNSUPPORTED]
    mine = [cell for i, cell in enumerate(cells) if i % ctx.nshards == ctx.shard]
    idx = 0
    for position, keyword in mine:
        for host_no in range(ctx.params["hosts"]):
            idx += 1
            host = host_schema(rng)
            if host_no == 0:
                # the offending keyword ALONE (plus, sometimes, its usual companions): a schema that holds
                # nothing the library models
                host = {}
                ctx.count("host.bare_keyword_only")
            inner = dict(host)
            inner[keyword] = copy.deepcopy(UNSUPPORTED[keyword])
            if not host and keyword == "if" and rng.random() < 0.5:
                inner["then"] = {"type": "string"}
            if idx % 5 == 3:
                # annotations (also those of later drafts) change nothing: neither what is supported nor what is not
                note = rng.choice([{"deprecated": True}, {"readOnly": True}, {"writeOnly": True}, {"$comment": "x"},
                                   {"examples": [1]}, {"deprecated": True, "description": "old"}, {"contentMediaType": "text/plain"}])
                inner.update(copy.deepcopy(note))
                host = {**host, **copy.deepcopy(note)}
                ctx.count("host.with_annotations")
            doc = place(inner, position, rng)
            control = place(dict(host), position, rng)
            if idx % 4 == 1 and isinstance(doc, dict) and isinstance(control, dict):
                # the document names a meta-schema (any draft): an annotation, which changes nothing
                uri = rng.choice(gs.SCHEMA_URIS)
                doc, control = {"$schema": uri, **doc}, {"$schema": uri, **control}
                if rng.random() < 0.5 and isinstance(inner, dict) and position != "root":
                    inner["$schema"] = rng.choice(gs.SCHEMA_URIS)
                ctx.count("host.names_a_meta_schema")
            ctx.count("pos." + position)
            ctx.count("kw." + keyword)
            routes = ["parse"] if position == "definitions" else ["parse_element", "parse"]
            if idx % 3 == 0:
                routes = routes + ["main"]
            if position == "definitions":
                routes = ["parse", "main"] if idx % 3 == 0 else ["parse"]
            check_refusal(ctx, sut, doc, control, routes, f"{position}/{keyword}", idx)
            ctx.nontrivial(json.dumps(doc, sort_keys=True, default=repr))
            ctx.sample({"position": position, "keyword": keyword, "doc": doc}, every=30)


def chains(ctx, sut):
    """Offending keyword below a chain of 2-3 positions."""
    rng = ctx.rng
    inner_positions = [p for p in POSITIONS if p not in ("root", "definitions")]
    for idx in range(ctx.params["chains"]):
        keyword = rng.choice(sorted(UNSUPPORTED))
        host = host_schema(rng)
        inner = dict(host)
        inner[keyword] = copy.deepcopy(UNSUPPORTED[keyword])
        doc, control = inner, dict(host)
        chain = [rng.choice(inner_positions) for _ in range(rng.randint(2, 3))]
        for pos_idx, position in enumerate(chain):
            state = rng.getstate()
            doc = place(doc, position, rng, title=f"Host{pos_idx}")
            rng.setstate(state)
            control = place(control, position, rng, title=f"Host{pos_idx}")
        ctx.count("chain")
        check_refusal(ctx, sut, doc, control, ["parse_element"], "chain:" + ">".join(chain) + "/" + keyword,
                      f"c{idx}")
        ctx.nontrivial(json.dumps(doc, sort_keys=True, default=repr))


def negative_controls(ctx, sut):
    """Keywords inside literals / as property names are not unsupported keywords."""
    rng = ctx.rng
    for idx, keyword in enumerate(sorted(UNSUPPORTED)):
        literal = {keyword: copy.deepcopy(UNSUPPORTED[keyword]), "x": 1}
        docs = [
            {"const": literal},
            {"enum": [literal, 1]},
            {"default": literal, "type": "object", "title": "Neg"},
            {"properties": {keyword: {"type": "string"}}},
            {"type": "object", "title": "Neg", "properties": {keyword: {"type": "string"}},
             "required": [keyword]},
            {"dependencies": {keyword: ["a"]}},
            {"patternProperties": {"^" + keyword.replace("$", "\\$"): {"type": "string"}}},
        ]
        for jdx, doc in enumerate(docs):
            for route in ("parse_element", "parse", "main"):
                ctx.evaluation()
                outcome, exc = attempt(sut, doc, route, ctx, f"n{idx}_{jdx}")
                if outcome == "ok":
                    ctx.count("negative_control_parsed")
                else:
                    ctx.witness(
                        "negative_control_refused", {"doc": doc, "route": route},
                        f"{keyword!r} is a literal member / property name here, not a keyword, but parsing "
                        f"raised {outcome}: {exc!r}"[:500],
                    )
    _ = rng


CYCLE_POSITIONS = [
    "properties", "properties_typed", "patternProperties", "additionalProperties", "dependencies",
    "items", "tuple_first", "additionalItems_tuple", "contains", "anyOf", "oneOf", "allOf", "not",
    # references inside literals are resolved by the loader like any other: a cycle that runs through
    # default / const / enum values only is a recursive document too
    "default_literal", "const_literal", "enum_literal", "properties_keyword_named",
]


def cycles(ctx, sut):
    rng = ctx.rng
    from statham.__main__ import main  # pylint: disable=import-outside-toplevel

    for idx in range(ctx.params["cycles"]):
        length = rng.choice([1, 1, 2, 2, 3, 4, 5, 8, 13, 30]) if idx % 4 else 1 + (idx // 4) % 30
        position = CYCLE_POSITIONS[(idx + ctx.shard) % len(CYCLE_POSITIONS)]
        shape = rng.choice(["root_in_cycle", "root_refs_cycle", "only_definitions", "cross_file", "self_root"])
        directory = ctx.tmpdir()
        base = f"cyc_{ctx.shard}_{idx}"
        files = {}
        if shape == "self_root":
            files[base + ".json"] = place({"$ref": "#"}, position, rng, title="Selfish")
            length = 1
        elif shape == "cross_file":
            other = base + "_b.json"
            files[base + ".json"] = place({"$ref": other + "#/definitions/n0"}, position, rng)
            defs = {}
            for node in range(length):
                nxt = f"#/definitions/n{node + 1}" if node + 1 < length else base + ".json#/"
                defs[f"n{node}"] = place({"$ref": nxt}, position, rng, title=f"N{node}")
            files[other] = {"definitions": defs}
        else:
            defs = {}
            for node in range(length):
                nxt = f"#/definitions/n{(node + 1) % length}"
                defs[f"n{node}"] = place({"$ref": nxt}, position, rng, title=f"N{node}")
            if shape == "root_in_cycle":
                root = place({"$ref": "#/definitions/n0"}, position, rng)
            elif shape == "root_refs_cycle":
                root = {"properties": {"start": {"$ref": "#/definitions/n0"}}}
            else:
                root = {"type": "string"}
            root = dict(root)
            root["definitions"] = defs
            files[base + ".json"] = root
        for name, body in files.items():
            with open(os.path.join(directory, name), "w", encoding="utf8") as handle:
                json.dump(body, handle)
        path = os.path.join(directory, base + ".json")
        ctx.evaluation()
        ctx.count("cycle.len%d" % min(length, 30))
        ctx.count("cycle.shape." + shape)
        ctx.count("cycle.pos." + position)
        try:
            main(path)
            outcome, exc = "ok", None
        except BaseException as err:  # pylint: disable=broad-except
            if isinstance(err, (KeyboardInterrupt, SystemExit)):
                raise
            outcome, exc = sut.outcome_class(err), err
        finally:
            for name in files:
                os.remove(os.path.join(directory, name))
        ctx.nontrivial(json.dumps(files, sort_keys=True))
        if outcome == "FeatureNotImplementedError":
            ctx.count("cycle.refused")
        else:
            ctx.witness(
                "cycle_not_refused", {"files": files, "entry": base + ".json", "shape": shape},
                f"reference cycle of length {length} through {position}: expected "
                f"FeatureNotImplementedError, got {outcome}: {exc!r}"[:500],
            )
        # control: break the cycle (last node points to a plain schema)
        ctx.sample({"cycle_files": files}, every=25)


def concurrent_parsing(ctx, sut):
    """Refusal must not depend on what other threads are parsing at the same time."""
    import threading  # pylint: disable=import-outside-toplevel

    # (wide, so that a background thread is inside the parser almost all the time)
    ordinary = {"type": "object", "title": "Plain",
                "properties": {f"p{idx}": {"type": "array", "items": {"anyOf": [{"type": "integer"}, {"type": "null"}]}}
                               for idx in range(150)}}
    results = []
    stop = threading.Event()

    prepared = sut.add_titles(ordinary)

    def background():
        while not stop.is_set():
            sut.st_parser.parse_element(copy.deepcopy(prepared))

    def refusals():
        for idx in range(12):
            cyclic = {"type": "object", "title": "Loop", "properties": {}}
            cyclic["properties"]["next"] = cyclic  # a resolved self-reference, as json_ref_dict materialises it
            unsupported = {"properties": {"p": {"if": {"type": "string"}, "type": "string"}}}
            for label, doc in (("cycle", cyclic), ("keyword", unsupported)):
                try:
                    sut.st_parser.parse_element(doc)
                    results.append((label, "ok", None))
                except BaseException as exc:  # pylint: disable=broad-except
                    results.append((label, sut.outcome_class(exc), repr(exc)[:120]))
            _ = idx

    threads = [threading.Thread(target=background) for _ in range(3)] + [threading.Thread(target=refusals)]
    import sys  # pylint: disable=import-outside-toplevel

    old = sys.getswitchinterval()
    sys.setswitchinterval(1e-5)
    try:
        for thread in threads:
            thread.start()
        threads[-1].join(timeout=120)
        stop.set()
        for thread in threads[:-1]:
            thread.join(timeout=60)
    finally:
        sys.setswitchinterval(old)
        stop.set()
    if threads[-1].is_alive():
        ctx.inconclusive_reason("concurrent parsing did not finish within 120 s")
        return
    for label, outcome, detail in results:
        ctx.evaluation()
        ctx.count("concurrent_parse.refusals")
        if outcome != "FeatureNotImplementedError":
            ctx.witness("not_refused" if label == "keyword" else "cycle_not_refused",
                        {"doc": "<self-referential dict>" if label == "cycle" else {"properties": {"p": {"if": {}}}},
                         "route": "parse_element", "label": "concurrent " + label},
                        f"while other threads were parsing ordinary schemas: expected FeatureNotImplementedError, "
                        f"got {outcome}: {detail}")
            return


def run_shard(ctx):
    from vlib import sut  # pylint: disable=import-outside-toplevel

    if ctx.shard % 4 == 0:
        concurrent_parsing(ctx, sut)
    matrix(ctx, sut)
    chains(ctx, sut)
    if ctx.shard == 0:
        negative_controls(ctx, sut)
    else:
        ctx.count("negative_control_parsed", 0)
    cycles(ctx, sut)


def replay(case, ctx):
    from vlib import sut  # pylint: disable=import-outside-toplevel

    if "files" in case:
        from statham.__main__ import main  # pylint: disable=import-outside-toplevel

        directory = ctx.tmpdir()
        for name, body in case["files"].items():
            with open(os.path.join(directory, name), "w", encoding="utf8") as handle:
                json.dump(body, handle)
        try:
            main(os.path.join(directory, case["entry"]))
            outcome, exc = "ok", None
        except BaseException as err:  # pylint: disable=broad-except
            outcome, exc = sut.outcome_class(err), err
        ctx.evaluation()
        if outcome != "FeatureNotImplementedError":
            ctx.witness("cycle_not_refused", case, f"got {outcome}: {exc!r}")
        return
    outcome, exc = attempt(sut, case["doc"], case.get("route", "parse_element"), ctx, "replay")
    ctx.evaluation()
    if outcome != "FeatureNotImplementedError":
        ctx.witness("not_refused", case, f"got {outcome}: {exc!r}")
