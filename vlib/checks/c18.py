"""C18 - an element's repr is the expression that rebuilds it."""
import ast
import inspect

from vlib import gen_dsl
from vlib.runner import canon

PROPERTY = "C18"
TECHNIQUE = (
    "runtime monitoring: round-trip oracle - eval(repr(e)) in a namespace of the public classes must "
    "give an element that is == to e AND fingerprint-equal (aliasing-blind) to e; an AST monitor on the "
    "repr text checks, against the constructor signature with type-aware comparison, that keywords at "
    "their default are omitted and all others appear"
)
RULE = (
    "case = element tree from the DSL spec generator (all constructors, keyword subsets, literal pool "
    "incl. falsy values / quotes / backslashes / nested containers, nested elements, renamed properties, "
    "model classes in the namespace) or a property wrapper (unbound; bound ones are re-bound under their "
    "own name as the class body does); non-trivial = >= 2 keywords or >= 1 nested element; distinct by spec"
)
ASSUMPTIONS = [
    "finite floats only (JSON domain); the namespace holds the public element classes, Property, "
    "NotPassed and the model classes of the tree by name",
    "a bound property wrapper's repr is judged in its context of use: eval(repr(p)) bound again under "
    "p's attribute name must equal p (its repr deliberately omits source= when it equals the name)",
]
REQUIRED_COUNTERS = [
    "roundtrip.elements", "roundtrip.properties_unbound", "roundtrip.properties_bound", "ast.calls_checked",
    "ast.keywords_present", "ast.keywords_omitted", "literal.falsy_kept", "shape.renamed_property",
    "t.Element", "t.String", "t.Integer", "t.Number", "t.Boolean", "t.Null", "t.Array", "t.AnyOf", "t.OneOf",
    "t.AllOf", "t.Not", "t.Object", "t.Nothing",
]
FALSY_POOL = [False, 0, 0.0, "", [], {}, None]
STRING_POOL = ["it's", 'say "hi"', "back\\slash", "new\nline", "tab\t", "'''", '"""', "é", "\x00", "\\", "'\"",
               "{curly}", "%s", "a" * 90]

ANCHORS = [
    "statham.schema.helpers:custom_repr_args",
    "statham.schema.helpers:Args.__repr__",
    "statham.schema.property:_Property.__repr__",
    "statham.schema.elements.base:Element.__repr__",
]


def plan(tier):
    if tier == "quick":
        return {"shards": 16, "trees": 500, "timeout": 900}
    return {"shards": 16, "trees": 30000, "timeout": 7200}


def salt_literals(rng, spec):
    """Put falsy / hostile literals into literal-valued keywords of a spec."""
    touched = 0
    stack = [spec]
    while stack:
        node = stack.pop()
        if isinstance(node, dict):
            kw = node.get("kw")
            if isinstance(kw, dict) and node.get("t") not in (None, "ref", "Nothing"):
                roll = rng.random()
                if roll < 0.25:
                    kw["default"] = rng.choice(FALSY_POOL + STRING_POOL)
                    touched += 1
                elif roll < 0.4:
                    kw["const"] = rng.choice(FALSY_POOL + STRING_POOL + [[0, False, ""], {"k": None}])
                    touched += 1
                elif roll < 0.5:
                    kw["enum"] = [rng.choice(FALSY_POOL), rng.choice(STRING_POOL)]
                    touched += 1
                elif roll < 0.58 and node["t"] in ("String", "Element"):
                    kw["minLength"] = 0
                    touched += 1
                elif roll < 0.64 and node["t"] in ("Array", "Element"):
                    kw["minItems"] = 0
                    kw["uniqueItems"] = rng.random() < 0.5
                    touched += 1
                elif roll < 0.7 and node["t"] in ("Integer", "Number", "Element"):
                    kw["minimum"] = rng.choice([0, 0.0, -0.0])
                    touched += 1
                elif roll < 0.75:
                    kw["description"] = rng.choice(STRING_POOL + [""])
                    touched += 1
            stack.extend(node.values())
        elif isinstance(node, list):
            stack.extend(node)
    return touched


def namespace_for(sut, element):
    names = dict(sut.NAMESPACE)
    classes = []
    if isinstance(element, sut.ObjectMeta):
        classes.append(element)
    try:
        classes += [c for c in sut.get_children(element) if isinstance(c, sut.ObjectMeta)]
    except Exception:  # pylint: disable=broad-except
        pass
    for cls in classes:
        names[cls.__name__] = cls
    return names


def type_aware_equal(left, right):
    if type(left) is not type(right):  # pylint: disable=unidiomatic-typecheck
        return False
    try:
        return left == right
    except Exception:  # pylint: disable=broad-except
        return False


def check_ast(ctx, sut, element, text, case):
    """Keywords at their default omitted, every other keyword present (top-level call)."""
    try:
        tree = ast.parse(text, mode="eval").body
    except SyntaxError:
        return
    if not isinstance(tree, ast.Call) or isinstance(element, type):
        return
    ctx.count("ast.calls_checked")
    params = inspect.signature(type(element).__init__).parameters
    shown = {kw.arg for kw in tree.keywords}
    for name, param in params.items():
        if param.kind != param.KEYWORD_ONLY:
            continue
        value = getattr(element, name, None)
        default = param.default
        at_default = value is default or (
            not isinstance(default, sut.NotPassed) and type_aware_equal(value, default)
        )
        if at_default and name in shown:
            ctx.witness("default_keyword_shown", case, f"{name}={value!r} equals the constructor default but "
                        f"appears in repr: {text[:200]}")
        elif not at_default and name not in shown:
            ctx.witness("keyword_missing", case, f"{name}={value!r} differs from the constructor default "
                        f"({default!r}) but is missing from repr: {text[:200]}")
        elif at_default:
            ctx.count("ast.keywords_omitted")
        else:
            ctx.count("ast.keywords_present")
            if not value and not isinstance(value, sut.Element):
                ctx.count("literal.falsy_kept")


def check_passed_keywords(ctx, sut, element, text, spec, case):
    """Against what was PASSED to the constructor (the spec), not against what the element stored: a literal
    keyword given a value other than the constructor's default must appear in the repr."""
    try:
        tree = ast.parse(text, mode="eval").body
    except SyntaxError:
        return
    if not isinstance(tree, ast.Call) or isinstance(element, type) or not isinstance(spec.get("kw"), dict):
        return
    params = inspect.signature(type(element).__init__).parameters
    shown = {kw.arg for kw in tree.keywords}
    for name, passed in spec["kw"].items():
        param = params.get(name)
        if param is None or param.kind != param.KEYWORD_ONLY:
            continue
        if isinstance(passed, dict) and ("t" in passed or name in ("properties", "patternProperties", "dependencies")):
            continue    # element-valued keywords are covered by the attribute-based check
        if isinstance(passed, list) and any(isinstance(m, dict) and "t" in m for m in passed):
            continue
        default = param.default
        if not isinstance(default, sut.NotPassed) and type_aware_equal(passed, default):
            continue
        ctx.count("ast.passed_keywords_checked")
        if name not in shown:
            ctx.witness("keyword_missing", case, f"{name}={passed!r} was passed to the constructor (default "
                        f"{default!r}) but is missing from repr: {text[:200]}")


def roundtrip(ctx, sut, fpm, element, case, kind):
    ctx.evaluation()
    try:
        text = repr(element)
    except Exception as exc:  # pylint: disable=broad-except
        ctx.witness("repr_raised", case, f"{type(exc).__name__}: {exc!r}"[:300])
        return
    names = namespace_for(sut, element if not isinstance(element, sut._Property) else element.element)  # pylint: disable=protected-access
    try:
        rebuilt = eval(text, names)  # pylint: disable=eval-used
    except Exception as exc:  # pylint: disable=broad-except
        ctx.witness("eval_raised", case, f"eval(repr(e)) raised {type(exc).__name__}: {exc!r}; repr={text[:300]}")
        return
    if kind == "properties_bound":
        rebuilt.bind(name=element.name)
    ctx.count("roundtrip." + kind)
    try:
        equal = rebuilt == element and element == rebuilt
    except Exception as exc:  # pylint: disable=broad-except
        ctx.witness("eq_raised", case, f"{type(exc).__name__}: {exc!r}")
        return
    if not equal:
        ctx.witness("not_equal", case, f"eval(repr(e)) != e; repr={text[:400]}")
        return
    left, right = fpm.fp_tree(rebuilt), fpm.fp_tree(element)
    if kind == "properties_bound":
        pass
    if left != right:
        from vlib import monitors  # pylint: disable=import-outside-toplevel

        ctx.witness("fingerprint_differs", case,
                    f"eval(repr(e)) == e but the configuration differs: "
                    f"{monitors.first_difference(right, left)}; repr={text[:300]}")
        return
    if kind == "elements":
        check_ast(ctx, sut, element, text, case)


def shared_wrappers(ctx, sut, rng, serial):
    """One `Property` object declared under more than one name: twice in one element, in two elements, in two
    model classes (with and without a redundant explicit source).  Every user's repr must rebuild it; the
    oracle is `==` both ways only (the wrapper's `name` is shared state, known finding F25 of C08)."""
    leaf = gen_dsl.build(gen_dsl.Gen(rng, max_depth=0, classes=False, share=0.0).spec(0))
    required = rng.random() < 0.5
    first_name, second_name = rng.sample(["first", "second", "id", "ident", "key", "other", "a", "b"], k=2)
    explicit = rng.choice([None, first_name, "json-name"])
    check_shared(ctx, sut, leaf, serial % 3, first_name, second_name, explicit, required, serial, rng.random() < 0.5)


def check_shared(ctx, sut, leaf, shape, first_name, second_name, explicit, required, serial, flip):
    users = []
    try:
        shared = sut.Property(leaf, required=required, source=explicit)
        if shape == 0:
            users.append(("same element", sut.Element(properties={first_name: shared, second_name: shared})))
        elif shape == 1:
            users.append(("first user", sut.Element(properties={first_name: shared})))
            users.append(("second user", sut.Element(properties={second_name: shared})))
            if flip:
                users.reverse()
        else:
            left = sut.Object.inline(f"Left{serial}", properties={first_name: shared})
            right = sut.Object.inline(f"Right{serial}", properties={second_name: shared})
            for model in (left, right):
                for attr, prop in model.properties.items():
                    users.append((f"{model.__name__}.{attr}", sut.Element(properties={attr: prop})))
    except Exception as exc:  # pylint: disable=broad-except
        ctx.count("shared_wrappers.build_failed." + type(exc).__name__)
        return
    case = {"shared_wrapper": {"shape": shape, "names": [first_name, second_name], "source": explicit,
                               "required": required, "leaf": repr(leaf), "flip": flip}}
    for label, element in users:
        ctx.evaluation()
        ctx.count("shared_wrappers.users")
        text = repr(element)
        try:
            rebuilt = eval(text, namespace_for(sut, element))  # pylint: disable=eval-used
            equal = rebuilt == element and element == rebuilt
        except Exception as exc:  # pylint: disable=broad-except
            ctx.witness("eval_raised", case, f"{label}: {type(exc).__name__}: {exc!r}; repr={text[:300]}")
            continue
        if not equal:
            got = {k: (p.source, p.required) for k, p in element.properties.items()}
            new = {k: (p.source, p.required) for k, p in rebuilt.properties.items()}
            ctx.witness("not_equal", case, f"{label}: repr {text[:200]} rebuilds (source, required) {new}, "
                                           f"the original has {got}")
        else:
            ctx.count("shared_wrappers.rebuilt_equal")


def run_shard(ctx):
    from vlib import fingerprint as fpm  # pylint: disable=import-outside-toplevel
    from vlib import sut  # pylint: disable=import-outside-toplevel

    rng = ctx.rng
    for idx in range(max(30, ctx.params["trees"] // 10)):
        shared_wrappers(ctx, sut, rng, idx)
    for idx in range(ctx.params["trees"]):
        gen = gen_dsl.Gen(rng, max_depth=rng.choice([0, 1, 1, 2, 3]), share=0.05, renames=0.5,
                          explicit_required=0.4, defaults=0.3, long_descriptions=True)
        spec = gen.spec()
        if spec["t"] == "ref":
            continue
        salted = salt_literals(rng, spec)
        try:
            element = gen_dsl.build(spec)
        except Exception as exc:  # pylint: disable=broad-except
            ctx.count("build_failed." + type(exc).__name__)
            continue
        for shape in gen_dsl.shapes(spec):
            ctx.count(shape if shape.startswith("t.") else "shape." + shape)
        case = {"spec": spec}
        nkw = len(spec.get("kw", {}))
        if nkw >= 2 or gen_dsl.count_nodes(spec) >= 2:
            ctx.nontrivial(canon(spec))
        roundtrip(ctx, sut, fpm, element, case, "elements")
        try:
            check_passed_keywords(ctx, sut, element, repr(element), spec, case)
        except Exception:  # pylint: disable=broad-except
            ctx.count("passed_keywords.check_failed")
        # every sub-element too (each is an element built in the DSL)
        try:
            children = list(sut.get_children(element))[:12]
        except Exception:  # pylint: disable=broad-except
            children = []
        for child in children:
            if not isinstance(child, type):
                roundtrip(ctx, sut, fpm, child, {"spec": spec, "child": repr(child)[:200]}, "elements")
        # property wrappers: bound ones of the tree, and unbound copies
        props = []
        stack = [element] + children
        for node in stack:
            holder = getattr(node, "properties", None)
            if isinstance(holder, dict):
                props.extend(holder.values())
        for prop in props[:6]:
            roundtrip(ctx, sut, fpm, prop, {"spec": spec, "property": prop.name}, "properties_bound")
            unbound = sut.Property(prop.element, required=prop.required,
                                   source=prop.source if prop.source != prop.name else None)
            roundtrip(ctx, sut, fpm, unbound, {"spec": spec, "property_unbound": prop.name},
                      "properties_unbound")
        _ = salted
        ctx.sample({"spec": spec, "repr": repr(element)[:300]}, every=150)


def replay(case, ctx):
    from vlib import fingerprint as fpm  # pylint: disable=import-outside-toplevel
    from vlib import sut  # pylint: disable=import-outside-toplevel

    if "shared_wrapper" in case:
        info = case["shared_wrapper"]
        leaf = eval(info["leaf"], dict(sut.NAMESPACE))  # pylint: disable=eval-used
        check_shared(ctx, sut, leaf, info["shape"], info["names"][0], info["names"][1], info["source"],
                     info["required"], 0, info.get("flip", False))
        return
    element = gen_dsl.build(case["spec"])
    roundtrip(ctx, sut, fpm, element, {"spec": case["spec"]}, "elements")
    for child in list(sut.get_children(element))[:30]:
        if not isinstance(child, type):
            roundtrip(ctx, sut, fpm, child, {"spec": case["spec"]}, "elements")
    for node in [element] + list(sut.get_children(element))[:30]:
        holder = getattr(node, "properties", None)
        if isinstance(holder, dict):
            for prop in holder.values():
                roundtrip(ctx, sut, fpm, prop, {"spec": case["spec"]}, "properties_bound")
