"""C06 - serialize-then-parse is the identity on statham's normal form."""
import copy
import json
import os
import re

from vlib import gen_docs
from vlib import gen_schemas as gs
from vlib import refmodel
from vlib.checks.c17 import normalise_json
from vlib.runner import canon

PROPERTY = "C06"
TECHNIQUE = (
    "runtime monitoring: round-trip oracle - J1 = serialize_json(parse(S)), J2 = serialize_json(parse(J1)) "
    "(J1 read back the only supported way: file, RefDict, materialize, parse), J3 likewise on a sample; "
    "J1, J2, J3 must be the identical document under JSON-Schema equality; the executed serialize_python "
    "module must define classes equal to the parsed ones"
)
RULE = (
    "S = generated schema (grammar + interaction templates, with definitions and $ref) or multi-file "
    "document; emphasis on falsy keyword values, renamed properties, required lists, repeated titles; "
    "non-trivial = J1 has >= 3 keywords or a definitions member; distinct by canonical J1"
)
ASSUMPTIONS = [
    "documents are compared with JSON-Schema equality (object member order ignored, 1 == 1.0, booleans "
    "distinct)",
    "F24: the _N suffix of de-duplicated class names is not stable under the title formatting of the "
    "second parse; attributed only when J1 contains a numbered title AND J1, J2 are identical once "
    "definitions are inlined and titles dropped",
]
REQUIRED_COUNTERS = ["schemas", "roundtrip.identical", "third_iteration.identical", "python.classes_equal",
                     "j1.with_definitions", "j1.with_required", "j1.falsy_keyword_value", "j1.renamed_property",
                     "source.docs", "source.grammar", "source.sibling_docs"]
NUMBERED = re.compile(r"_\d+$")

ANCHORS = [
    "statham.schema.parser:_keyword_filter",
    "statham.serializers.json:_serialize_element",
    "statham.schema.elements.base:Element.__eq__",
    "statham.schema.property:_Property.__eq__",
    "statham.serializers.python:serialize_python",
]


def plan(tier):
    if tier == "quick":
        return {"shards": 16, "schemas": 180, "timeout": 900, "mirror": True}
    return {"shards": 16, "schemas": 12000, "timeout": 7200, "mirror": True}


def has_falsy_keyword(node):
    if isinstance(node, dict):
        for key, val in node.items():
            if key in ("default", "const", "minLength", "minItems", "minProperties", "minimum", "maximum",
                       "additionalProperties", "additionalItems", "maxLength", "maxItems") and \
                    (val is False or val == 0 or val == "" or val == [] or val == {} or val is None) \
                    and not isinstance(val, dict):
                return True
            if has_falsy_keyword(val):
                return True
    elif isinstance(node, list):
        return any(has_falsy_keyword(v) for v in node)
    return False


def numbered_titles(doc):
    out = []
    for node in refmodel.walk_schemas(doc):
        title = node.get("title")
        if isinstance(title, str) and NUMBERED.search(title):
            out.append(title)
    return out


def f22_class_names(doc):
    """Class names (titles / definitions keys of object schemas) hit by F22's trigger."""
    from vlib.checks.c12 import f22_trigger  # pylint: disable=import-outside-toplevel

    names = [name for name, sub in (doc.get("definitions") or {}).items()
             if isinstance(sub, dict) and sub.get("type") == "object"]
    if isinstance(doc, dict) and doc.get("type") == "object" and "title" in doc:
        names.append(doc["title"])
    return [name for name in names if f22_trigger(name)]


def class_titles(doc):
    out = [name for name, sub in (doc.get("definitions") or {}).items()
           if isinstance(sub, dict) and sub.get("type") == "object"]
    if isinstance(doc, dict) and doc.get("type") == "object" and isinstance(doc.get("title"), str):
        out.append(doc["title"])
    return out


def h_third(tag):
    import zlib  # pylint: disable=import-outside-toplevel

    return zlib.crc32(str(tag).encode()) % 10 < 3


def reparse(sut, ctx, doc, tag):
    elements = sut.parse_file(copy.deepcopy(doc), ctx.tmpdir(), f"c06_{ctx.stream}_{tag}.json")
    return elements


def fixed_documents(ctx, sut, fpm):
    """Documents on which the pinned tree IS a fixed point although they are full of numbered titles (the
    classes are met in the same order by the first and by the second parse).  Judged without the F24
    attribution: here any difference between J1 and J2 is new."""
    for count in (12, 13, 34):
        for where in ("definitions", "properties", "items_tuple"):
            members = [{"type": "object", "title": "Entry", "required": [f"f{idx}"],
                        "properties": {f"f{idx}": {"type": "integer"}}} for idx in range(count)]
            if where == "definitions":
                schema = {"type": "object", "title": "Root", "properties": {"a": {"type": "string"}},
                          "definitions": {f"e{idx:02d}": member for idx, member in enumerate(members)}}
            elif where == "properties":
                schema = {"type": "object", "title": "Root",
                          "properties": {f"m{idx:02d}": member for idx, member in enumerate(members)}}
            else:
                schema = {"type": "array", "items": members[:20]}
            if (count + len(where)) % ctx.nshards != ctx.shard:
                continue
            try:
                elements = sut.parse_file(copy.deepcopy(schema), ctx.tmpdir(), f"c06f_{ctx.stream}_{count}_{where}.json")
            except Exception as exc:  # pylint: disable=broad-except
                ctx.witness("first_parse_failed", {"schema": schema}, f"{type(exc).__name__}: {exc!r}"[:300])
                continue
            ctx.count("fixed_documents")
            roundtrip(ctx, sut, fpm, elements, {"schema": schema, "fixed_document": True}, f"fixed_{count}_{where}",
                      attribute_f24=False)


def keyword_orders(ctx, sut, fpm):
    """One schema holding same-titled, different objects under several sibling keywords, the keywords written
    in every rotation (and reversal) of their order: which class keeps the bare name must not depend on the
    order in which the document happens to list its keywords, or J1 (written in the serializer's order)
    numbers them differently when parsed again."""
    def entry(idx):
        return {"type": "object", "title": "Entry", "required": [f"f{idx}"], "properties": {f"f{idx}": {"type": "integer"}}}

    members = [("properties", lambda i: {"a": entry(i)}), ("items", entry), ("patternProperties", lambda i: {"^x": entry(i)}),
               ("propertyNames", entry), ("contains", entry), ("dependencies", lambda i: {"a": entry(i)}),
               ("additionalProperties", entry), ("additionalItems", entry)]
    orders = []
    for shift in range(len(members)):
        turned = members[shift:] + members[:shift]
        orders += [turned, turned[::-1]]
    for number, order in enumerate(orders):
        if number % ctx.nshards != ctx.shard:
            continue
        schema = {}
        for key, make in order:
            schema[key] = make([name for name, _ in members].index(key))
        if "additionalItems" in schema and isinstance(schema.get("items"), dict):
            schema["items"] = [schema["items"]]
        try:
            elements = sut.parse_file(copy.deepcopy(schema), ctx.tmpdir(), f"c06k_{ctx.stream}_{number}.json")
        except Exception as exc:  # pylint: disable=broad-except
            ctx.witness("first_parse_failed", {"schema": schema}, f"{type(exc).__name__}: {exc!r}"[:300])
            continue
        ctx.count("keyword_orders")
        roundtrip(ctx, sut, fpm, elements, {"schema": schema, "fixed_document": True}, f"korder_{number}",
                  attribute_f24=False)


def roundtrip(ctx, sut, fpm, elements, case, tag, attribute_f24=True):
    ctx.evaluation()
    try:
        j1 = json.loads(json.dumps(sut.serialize_json(*elements)))
    except Exception as exc:  # pylint: disable=broad-except
        ctx.witness("first_serialization_failed", case, f"{type(exc).__name__}: {exc!r}"[:300])
        return
    text = json.dumps(j1)
    ctx.digest(tag, text)
    if "definitions" in j1:
        ctx.count("j1.with_definitions")
    if '"required"' in text:
        ctx.count("j1.with_required")
    if has_falsy_keyword(j1):
        ctx.count("j1.falsy_keyword_value")
    if len(gs.keywords_of(j1)) >= 3 or "definitions" in j1:
        ctx.nontrivial(canon(j1))
    try:
        second = reparse(sut, ctx, j1, f"{tag}_2")
        j2 = json.loads(json.dumps(sut.serialize_json(*second)))
    except Exception as exc:  # pylint: disable=broad-except
        finding = "F22" if f22_class_names(j1) else None
        ctx.witness("normal_form_not_parseable", {**case, "j1": j1},
                    f"parsing statham's own serialization raised {type(exc).__name__}: {exc!r}"[:400],
                    finding=finding)
        return
    if not refmodel.json_eq(j1, j2):
        finding = None
        if attribute_f24 and numbered_titles(j1) and refmodel.json_eq(normalise_json(j1), normalise_json(j2)) and \
                sorted(NUMBERED.sub("", t) for t in class_titles(j1)) == \
                sorted(NUMBERED.sub("", t) for t in class_titles(j2)):
            # F24 as observed on the pinned tree: the second parse strips the _N suffix (Foo_1 formats to
            # Foo) and numbers again in its own parse order, so the same BASE names come back, possibly
            # with other suffixes.  Any other change of names is not this finding.
            finding = "F24"
        elif f22_class_names(j1):
            finding = "F22"
        ctx.witness("roundtrip_differs", {**case, "j1": j1, "j2": j2},
                    f"J1 != J2: {first_json_difference(j1, j2)}", finding=finding)
        return
    ctx.count("roundtrip.identical")
    if h_third(tag):
        try:
            third = reparse(sut, ctx, j2, f"{tag}_3")
            j3 = json.loads(json.dumps(sut.serialize_json(*third)))
            if refmodel.json_eq(j2, j3):
                ctx.count("third_iteration.identical")
            else:
                ctx.witness("third_iteration_differs", {**case, "j2": j2, "j3": j3},
                            f"J2 != J3: {first_json_difference(j2, j3)}")
        except Exception as exc:  # pylint: disable=broad-except
            ctx.witness("normal_form_not_parseable", {**case, "j1": j2}, f"{type(exc).__name__}: {exc!r}"[:300])
    # Python source round trip: executed classes equal the parsed ones
    classes = {c.__name__: c for c in sut.get_object_classes(*elements)}
    if classes:
        try:
            source = sut.serialize_python(*elements)
            namespace = {}
            exec(compile(source, "<generated>", "exec"), namespace)  # pylint: disable=exec-used
        except Exception as exc:  # pylint: disable=broad-except
            from vlib.checks.c12 import f22_trigger  # pylint: disable=import-outside-toplevel

            trig = any(f22_trigger(name) for name in classes)
            ctx.witness("python_roundtrip_failed", case, f"{type(exc).__name__}: {exc!r}"[:300],
                        finding="F22" if trig else None)
            return
        for name, cls in classes.items():
            other = namespace.get(name)
            if other is None or not (other == cls and cls == other) or fpm.fp_tree(other) != fpm.fp_tree(cls):
                from vlib.checks.c12 import f22_trigger  # pylint: disable=import-outside-toplevel

                ctx.witness("python_roundtrip_class_differs", case,
                            f"class {name} from the executed source differs from the parsed class",
                            finding="F22" if any(f22_trigger(n) for n in classes) else None)
                return
        ctx.count("python.classes_equal")


def first_json_difference(left, right, path="$"):
    if isinstance(left, dict) and isinstance(right, dict):
        for key in sorted(set(left) | set(right)):
            if key not in left:
                return f"{path}.{key} only in second: {json.dumps(right[key])[:120]}"
            if key not in right:
                return f"{path}.{key} only in first: {json.dumps(left[key])[:120]}"
            if not refmodel.json_eq(left[key], right[key]):
                return first_json_difference(left[key], right[key], f"{path}.{key}")
    if isinstance(left, list) and isinstance(right, list) and len(left) == len(right):
        for idx, (a, b) in enumerate(zip(left, right)):
            if not refmodel.json_eq(a, b):
                return first_json_difference(a, b, f"{path}[{idx}]")
    return f"{path}: {json.dumps(left)[:150]} vs {json.dumps(right)[:150]}"


def run_shard(ctx):
    from vlib import fingerprint as fpm  # pylint: disable=import-outside-toplevel
    from vlib import sut  # pylint: disable=import-outside-toplevel

    import random as _random  # pylint: disable=import-outside-toplevel

    fixed_documents(ctx, sut, fpm)
    keyword_orders(ctx, sut, fpm)
    pending_sibling = None
    seeds = [ctx.gen_rng.getrandbits(48) for _ in range(ctx.params["schemas"])]
    for idx, case_seed in ctx.ordered(seeds):
        rng = _random.Random(case_seed)
        tag = f"{ctx.stream}_{idx}"
        if idx % 3 == 0:
            names = [n for n in gs.PLAIN_NAMES + gs.RENAMING_NAMES if n not in ("é", "1st")]
            doc = gen_docs.DocGen(rng, f"c06_{ctx.stream}_{tag}", names=names, untitled=0.3,
                                  hostile_descriptions=idx % 2 == 0,
                                  coincident_names=0.4 if idx % 12 == 3 else 0.0).doc()
            try:
                resolved = gen_docs.resolve(doc)
                if not refmodel.metaschema_valid(resolved):
                    continue
            except Exception:  # pylint: disable=broad-except
                continue
            directory = ctx.tmpdir()
            path = gen_docs.write_files(doc, directory)
            try:
                elements = sut.st_parser.parse(sut.materialize_file(path))
            except Exception as exc:  # pylint: disable=broad-except
                ctx.count("parse_failed." + type(exc).__name__)
                continue
            finally:
                gen_docs.remove_files(doc, directory)
            ctx.count("source.docs")
            case = {"files": doc["files"], "entry": doc["entry"]}
            if idx % 2 == 0:
                pending_sibling = doc
        else:
            opts = gs.Opts(defaults=0.3)
            schema = gs.with_definitions(rng, opts) if idx % 2 else gs.any_schema(rng, opts)[0]
            if isinstance(schema, dict) and idx % 4 == 1 and gs.add_vacuous(rng, schema, count=rng.randint(1, 3)):
                ctx.count("source.vacuous_keywords")
            if not isinstance(schema, dict) or not refmodel.metaschema_valid(schema):
                continue
            try:
                elements = sut.parse_file(copy.deepcopy(schema), ctx.tmpdir(), f"c06s_{ctx.stream}_{tag}.json")
            except Exception as exc:  # pylint: disable=broad-except
                ctx.count("parse_failed." + type(exc).__name__)
                continue
            ctx.count("source.grammar")
            case = {"schema": schema}
        ctx.count("schemas")
        if any(p.source != p.name for c in sut.get_object_classes(*elements) for p in c.properties.values()):
            ctx.count("j1.renamed_property")
        roundtrip(ctx, sut, fpm, elements, case, tag)
        ctx.sample(case, every=70)
        if pending_sibling is not None:
            # the same document again in this process with shifted class numbering (see c02.variant_of)
            from vlib.checks.c02 import variant_of  # pylint: disable=import-outside-toplevel

            sibling = variant_of(pending_sibling, "v")
            pending_sibling = None
            if sibling is not None:
                directory = ctx.tmpdir()
                path = gen_docs.write_files(sibling, directory)
                try:
                    sib_elements = sut.st_parser.parse(sut.materialize_file(path))
                except Exception as exc:  # pylint: disable=broad-except
                    ctx.count("parse_failed." + type(exc).__name__)
                    sib_elements = None
                finally:
                    gen_docs.remove_files(sibling, directory)
                if sib_elements is not None:
                    ctx.count("source.sibling_docs")
                    roundtrip(ctx, sut, fpm, sib_elements, {"files": sibling["files"], "entry": sibling["entry"]},
                              tag + "v")


def replay(case, ctx):
    from vlib import fingerprint as fpm  # pylint: disable=import-outside-toplevel
    from vlib import sut  # pylint: disable=import-outside-toplevel

    tag = f"r{os.getpid()}"
    if "files" in case:
        text = json.dumps(case["files"])
        rename = {name: name.replace(".json", f"_{tag}.json") for name in case["files"]}
        for old, new in rename.items():
            text = text.replace(old, new)
        doc = {"files": json.loads(text), "entry": rename[case["entry"]]}
        path = gen_docs.write_files(doc, ctx.tmpdir())
        elements = sut.st_parser.parse(sut.materialize_file(path))
    else:
        elements = sut.parse_file(copy.deepcopy(case["schema"]), ctx.tmpdir(), f"c06r_{tag}.json")
    base = {k: v for k, v in case.items() if k in ("files", "entry", "schema", "fixed_document")}
    roundtrip(ctx, sut, fpm, elements, base, tag, attribute_f24=not case.get("fixed_document"))
