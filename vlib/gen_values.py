"""JSON value generators: schema-directed, lookalike, valid-by-construction,
hostile.  No NaN/Infinity (not JSON).  Everything is driven by a
``random.Random`` handed in by the caller."""
import copy
import re

from vlib import refmodel

ALPHABET = "abcxyz019 _-é日ß\U0001F600AZ"

# pattern -> (matching examples, non-matching examples); all valid in Python re
# and in ECMA 262 with the same meaning on these examples.
PATTERNS = {
    "^a": (["a", "ab", "abc", "a1", "aé"], ["", "b", "ba", "xa", "1a"]),
    # (the strings ending in a line terminator, and the digits / letters outside ASCII, are where Python's `re`
    # and ECMA 262 - the dialect Draft 6 prescribes - part ways: known finding F41 of C01)
    "b$": (["b", "ab", "xb", "1b", "ab\n"], ["", "a", "ba", "bx", "b\n\n"]),
    "^[a-c]+$": (["a", "abc", "cab", "bb", "abc\n"], ["", "d", "abd", "a1", "A"]),
    "^\\d+$": (["1", "42", "007", "\u0663", "4\n"], ["", "a", "1a", "-1"]),
    "^\\w.$": (["ab", "_1", "\u00e9x", "a\r"], ["", "a", "-a", "abc"]),
    "^x_": (["x_", "x_a", "x_1"], ["", "x", "ax_", "y_a"]),
    "[0-9]": (["1", "a1", "019", "x9y"], ["", "a", "abc", "é"]),
    "^(foo|bar)$": (["foo", "bar", "foo\n"], ["", "fo", "foobar", "baz", "Foo"]),
    "^..$": (["ab", "é1", "日x", "a\u2028"], ["", "a", "abc", "ab\n"]),
    "é": (["é", "aé", "éé1"], ["", "e", "abc"]),
    "^$": (["", "\n"], ["a", " ", "ab"]),
    "o": (["o", "foo", "oo", "xo"], ["", "a", "bar", "0"]),
    "^[A-Z]": (["A", "Zb", "AZ"], ["", "a", "1A", "éA"]),
    # back-references (same meaning in Python re and ECMA 262)
    "^(a|b)\\1$": (["aa", "bb"], ["", "ab", "a", "aab", "ba"]),
    "(.)\\1": (["aa", "xooy", "11", "abb"], ["", "a", "ab", "aba", "abc"]),
    # character sequences that LOOK like ECMA named groups / back-references but are not (an escaped parenthesis,
    # a character class, an escaped backslash): a translator between regex dialects must leave them alone
    "^\\(?<\\d+>\\)?$": (["<12>", "(<12>)", "(<1>"], ["", "12", "P<12>", "<>", "(P<12>)"]),
    "[(?<a>]x": (["(x", "?x", "<x", "ax", ">x"], ["", "x", "Px", "bx"]),
    "\\\\k<a>": (["\\k<a>", "x\\k<a>y"], ["", "k<a>", "a", "\\k"]),
    # a word class met by letters outside ASCII (keys as well as values)
    "^t\\w*$": (["t", "temp", "temp\u00e9rature", "t\u0663"], ["", "x", "t-", "at"]),
}

GOOD_UUID = [
    "123e4567-e89b-12d3-a456-426614174000",
    "00000000-0000-0000-0000-000000000000",
    "FFFFFFFF-FFFF-4FFF-BFFF-FFFFFFFFFFFF",
]
GOOD_DATETIME = [
    "1990-12-31T23:59:59Z",
    "2020-02-29T12:00:00+01:00",
    "2001-01-01t00:00:00.123z",
    "1985-04-12T23:20:50.52Z",
]
BAD_FORMAT = ["", "!!", "not a thing", "zz-zz"]

CURATED = {
    "uuid": {**{s: True for s in GOOD_UUID}, **{s: False for s in BAD_FORMAT}},
    "date-time": {**{s: True for s in GOOD_DATETIME}, **{s: False for s in BAD_FORMAT}},
}

SCALARS = [
    None, True, False, 0, 1, -1, 2, 3, 5, 7, 10, 0.0, 1.0, -0.0, 0.5, 1.5, 2.5, -2.5,
    "", "a", "b", "ab", "abc", "foo", "bar", "é", "x_a", "1", "A",
    # strings spelled like Python constants / markers (a literal compared by its text looks "unset")
    "None", "True", "NotPassed", "[]",
    # text holding tokens a repr post-processor might take for Python (never the whole string)
    "lower, upper (0, inf)", "x, -inf, y", "no unit (nan)", "a _Property b", "Element() ...",
]


def dyadic(rng, small=False):
    """A dyadic rational k/2^n as int or float (exact in binary)."""
    if small or rng.random() < 0.7:
        base = rng.choice([0, 1, 2, 3, 4, 5, 6, 7, 8, 10, 12, 16, 100, -1, -2, -3, -5, -8])
    else:
        base = rng.randint(-(2 ** 40), 2 ** 40)
    roll = rng.random()
    if roll < 0.55:
        return base
    if roll < 0.7:
        return float(base)
    return base + rng.choice([0.5, 0.25, 0.75, 0.125, -0.5])


def random_string(rng, maxlen=6):
    if rng.random() < 0.5:
        return rng.choice(["", "a", "b", "ab", "abc", "foo", "bar", "é", "x_a", "1", "A", "a1", "oo"])
    return "".join(rng.choice(ALPHABET) for _ in range(rng.randint(0, maxlen)))


def random_value(rng, depth=2, keys=None):
    keys = keys or ["a", "b", "c", "foo", "x_a", "1"]
    roll = rng.random()
    if depth <= 0 or roll < 0.55:
        pick = rng.random()
        if pick < 0.6:
            return copy.deepcopy(rng.choice(SCALARS))
        if pick < 0.8:
            return dyadic(rng)
        return random_string(rng)
    if roll < 0.78:
        return [random_value(rng, depth - 1, keys) for _ in range(rng.randint(0, 4))]
    out = {
        rng.choice(keys): random_value(rng, depth - 1, keys)
        for _ in range(rng.randint(0, 4))
    }
    if rng.random() < 0.04:
        # members spelled like the labeller's annotations (only `_x_autotitle` itself is one: finding F43)
        out[rng.choice(["_x_scale", "_x_", "_x_autotitles", "x_autotitle"])] = random_value(rng, 0)
    return out


def lookalike(rng, value, depth=0):
    """Swap one value for its lookalike (True<->1, False<->0, 1<->1.0, ""<->None, []<->{})."""
    if isinstance(value, list) and value and rng.random() < 0.8:
        idx = rng.randrange(len(value))
        out = list(value)
        out[idx] = lookalike(rng, value[idx], depth + 1)
        return out
    if isinstance(value, dict) and value and rng.random() < 0.8:
        key = rng.choice(sorted(value))
        out = dict(value)
        out[key] = lookalike(rng, value[key], depth + 1)
        return out
    if value is True:
        return rng.choice([1, 1.0])
    if value is False:
        return rng.choice([0, 0.0])
    if isinstance(value, int):
        if value == 1 and rng.random() < 0.5:
            return True
        if value == 0 and rng.random() < 0.5:
            return False
        try:
            return float(value)
        except OverflowError:
            return -value
    if isinstance(value, float):
        if value == 1.0 and rng.random() < 0.4:
            return True
        if value == 0.0 and rng.random() < 0.4:
            return False
        if value == int(value):
            return int(value)
        return value
    if value == "":
        return None
    if value is None:
        return rng.choice(["", 0, False])
    if value == []:
        return {}
    if value == {}:
        return []
    return value


def deep_lookalike(value):
    """The look-alike of a nested literal at its innermost scalar (True <-> 1, False <-> 0, 1 <-> True ...)."""
    if isinstance(value, list) and value:
        return [deep_lookalike(value[0])] + list(value[1:])
    if isinstance(value, dict) and value:
        key = sorted(value)[0]
        return {**value, key: deep_lookalike(value[key])}
    if value is True:
        return 1
    if value is False:
        return 0
    if value == 1 and not isinstance(value, bool):
        return True
    if value == 0 and not isinstance(value, bool):
        return False
    return value


def contains_bool_lookalike(value, depth=0):
    """Does a container hold (below top level) a bool, 0, 1, 0.0 or 1.0?"""
    if isinstance(value, list):
        return any(_is_lookalike_atom(v) or contains_bool_lookalike(v, depth + 1) for v in value)
    if isinstance(value, dict):
        return any(
            _is_lookalike_atom(v) or contains_bool_lookalike(v, depth + 1) for v in value.values()
        )
    return False


def _is_lookalike_atom(value):
    return isinstance(value, bool) or (
        isinstance(value, (int, float)) and value in (0, 1)
    )


# --------------------------------------------------------------------------
# schema-directed


def _deref(schema, root):
    hops = 0
    while isinstance(schema, dict) and "$ref" in schema and hops < 20:
        schema = refmodel.resolve_pointer(root, schema["$ref"])
        hops += 1
    return schema


def key_for_pattern(rng, pattern, want=True):
    good, bad = PATTERNS.get(pattern, ([], []))
    pool = good if want else bad
    if pool:
        return rng.choice(pool)
    for _ in range(20):
        cand = random_string(rng)
        if bool(re.search(pattern, cand)) == want:
            return cand
    return "a"


def numeric_candidates(rng, schema):
    cands = [0, 1, -1, 2, 0.5, 1.0, 0.0]
    if rng.random() < 0.25:
        cands += [2 ** 64, 2 ** 70, 10 ** 20, 10 ** 22, -(2 ** 64), 2 ** 63, 10 ** 18 + 1]
    for key in ("minimum", "maximum", "exclusiveMinimum", "exclusiveMaximum"):
        if key in schema:
            bound = schema[key]
            cands += [bound, bound + 1, bound - 1, bound + 0.5, bound - 0.5,
                      float(bound) if isinstance(bound, int) else bound]
            if isinstance(bound, float) and bound == int(bound):
                cands.append(int(bound))
    if "multipleOf" in schema:
        mult = schema["multipleOf"]
        base = [mult * k for k in (0, 1, 2, 3, -1, -2, 7)]
        for key in ("minimum", "exclusiveMinimum", "maximum", "exclusiveMaximum"):
            if key in schema:
                try:
                    near = int(schema[key] / mult)
                    base += [mult * near, mult * (near + 1), mult * (near - 1)]
                except (OverflowError, ZeroDivisionError, ValueError):
                    pass
        cands += base + [mult * 1.5, mult + 0.25, mult / 2]
        # far beyond 2**53 (where a float quotient can no longer tell a multiple from its neighbour) and at
        # the top of the float range (where the quotient overflows)
        try:
            cands += [mult * 2 ** 60, mult * 2 ** 60 + 1, mult * (2 ** 53 + 1), 2 ** 53 + 1, 10 ** 30 + 1, 1e308,
                      2 ** 64, 2 ** 70, 10 ** 20, 10 ** 22, 2 ** 1000,
                      -1e308, 1.7976931348623157e308, 1e300, 2.0 ** 1000]
        except OverflowError:
            pass
    return [c for c in cands if not (isinstance(c, float) and (c != c or c in (float("inf"), float("-inf"))))]


def satisfy_once(rng, schema, root, depth=0):
    """One heuristic attempt to build a value valid for `schema`."""
    schema = _deref(schema, root)
    if schema is True or schema == {}:
        return random_value(rng, 1)
    if schema is False or not isinstance(schema, dict):
        return random_value(rng, 1)
    if depth > 7:
        return random_value(rng, 0)
    if "const" in schema:
        return copy.deepcopy(schema["const"])
    if "enum" in schema and schema["enum"]:
        return copy.deepcopy(rng.choice(schema["enum"]))
    merged = dict(schema)
    for key in ("anyOf", "oneOf"):
        if key in merged and merged[key]:
            branch = _deref(rng.choice(merged[key]), root)
            if isinstance(branch, dict):
                merged = _merge(merged, branch, drop=key)
            else:
                merged.pop(key)
    if "allOf" in merged:
        for branch in merged["allOf"]:
            branch = _deref(branch, root)
            if isinstance(branch, dict):
                merged = _merge(merged, branch, drop=None)
        merged.pop("allOf", None)
    if merged is not schema and ("const" in merged or "enum" in merged):
        if "const" in merged:
            return copy.deepcopy(merged["const"])
        return copy.deepcopy(rng.choice(merged["enum"]))
    schema = merged
    types = schema.get("type")
    if isinstance(types, str):
        types = [types]
    if not types:
        types = _infer_types(schema)
    kind = rng.choice(types)
    if kind == "null":
        return None
    if kind == "boolean":
        return rng.random() < 0.5
    if kind in ("integer", "number"):
        cands = numeric_candidates(rng, schema)
        rng.shuffle(cands)
        for cand in cands:
            if kind == "integer":
                if isinstance(cand, float):
                    if cand != int(cand):
                        continue
                    cand = int(cand)
            if refmodel.valid({k: v for k, v in schema.items() if k in _NUMERIC}, cand):
                return cand
        return cands[0] if cands else 0
    if kind == "string":
        return _satisfy_string(rng, schema)
    if kind == "array":
        return _satisfy_array(rng, schema, root, depth)
    if kind == "object":
        return _satisfy_object(rng, schema, root, depth)
    return random_value(rng, 1)


_NUMERIC = {"minimum", "maximum", "exclusiveMinimum", "exclusiveMaximum", "multipleOf"}
_STRING = {"minLength", "maxLength", "pattern", "format"}
_ARRAY = {"items", "additionalItems", "minItems", "maxItems", "uniqueItems", "contains"}
_OBJECT = {
    "properties", "patternProperties", "additionalProperties", "required",
    "minProperties", "maxProperties", "propertyNames", "dependencies",
}


def _infer_types(schema):
    out = []
    keys = set(schema)
    if keys & _OBJECT:
        out += ["object"] * 3
    if keys & _ARRAY:
        out += ["array"] * 3
    if keys & _NUMERIC:
        out += ["number", "integer"]
    if keys & _STRING:
        out += ["string"] * 2
    if not out:
        out = ["null", "boolean", "integer", "number", "string", "array", "object"]
    return out


def _merge(base, branch, drop):
    out = {k: v for k, v in base.items() if k != drop}
    for key, val in branch.items():
        if key == "properties" and isinstance(out.get("properties"), dict):
            out["properties"] = {**out["properties"], **val}
        elif key == "required" and isinstance(out.get("required"), list):
            out["required"] = list(dict.fromkeys(out["required"] + val))
        elif key in ("anyOf", "oneOf", "allOf") and key in out:
            continue
        else:
            out.setdefault(key, val) if key in ("type",) else out.__setitem__(key, val)
    return out


def _satisfy_string(rng, schema):
    fmt = schema.get("format")
    pool = []
    if "pattern" in schema:
        pool = list(PATTERNS.get(schema["pattern"], ([], []))[0])
    if fmt == "uuid":
        pool = pool or list(GOOD_UUID)
    elif fmt == "date-time":
        pool = pool or list(GOOD_DATETIME)
    if not pool:
        pool = ["", "a", "ab", "abc", "abcd", "abcdef", "é", "日本語", "foo", "x_a", "abcdefghij"]
    lo = schema.get("minLength", 0)
    hi = schema.get("maxLength", 10 ** 6)
    fitting = [s for s in pool if lo <= len(s) <= hi]
    if fitting:
        return rng.choice(fitting)
    cand = rng.choice(pool)
    if len(cand) < lo and "pattern" not in schema and lo < 40:
        cand = cand + "a" * (lo - len(cand))
    if len(cand) > hi and "pattern" not in schema:
        cand = cand[:hi]
    return cand


DISTINCT_LOOKALIKES = [
    [[], {}], [{"a": 1}, [["a", 1]]], [[1], [True]], [{"a": 0}, {"a": False}], [0, False], [[[]], [{}]], ["1", 1],
    [None, "None"], [[1, 2], {"1": 2}], [{"a": 1, "b": 2}, [["a", 1], ["b", 2]]], [[0.0], [False]], ["", []],
    [{"a": None}, {}], [[None], []], ["a", ["a"]], [{"a": [1]}, {"a": [True]}],
]


def _satisfy_array(rng, schema, root, depth):
    items = schema.get("items", True)
    lo = schema.get("minItems", 0)
    hi = schema.get("maxItems", 6)
    if lo > 8:
        lo = 8
    length = rng.randint(lo, max(lo, min(hi, lo + 3)))
    out = []
    if isinstance(items, list):
        additional = schema.get("additionalItems", True)
        if additional is False:
            length = min(length, len(items)) if lo <= len(items) else length
        for idx in range(length):
            sub = items[idx] if idx < len(items) else additional
            out.append(satisfy_once(rng, sub, root, depth + 1))
    else:
        for _ in range(length):
            out.append(satisfy_once(rng, items, root, depth + 1))
    if "contains" in schema:
        wanted = satisfy_once(rng, schema["contains"], root, depth + 1)
        if out and rng.random() < 0.6 and len(out) >= hi:
            out[rng.randrange(len(out))] = wanted
        else:
            out.insert(rng.randint(0, len(out)), wanted)
    if schema.get("uniqueItems") and items in (True, {}) and rng.random() < 0.35 and hi >= len(out) + 2:
        # distinct JSON values which a sloppy notion of "same" (Python ==, sorted pairs, hashing of frozen
        # containers, str()) would take for duplicates
        out += copy.deepcopy(rng.choice(DISTINCT_LOOKALIKES))
    if schema.get("uniqueItems"):
        uniq = []
        for member in out:
            if not any(refmodel.json_eq(member, other) for other in uniq):
                uniq.append(member)
        out = uniq
    return out


def _satisfy_object(rng, schema, root, depth):
    props = schema.get("properties", {})
    if not isinstance(props, dict):
        props = {}
    patterns = schema.get("patternProperties", {})
    additional = schema.get("additionalProperties", True)
    required = list(schema.get("required", []))
    out = {}
    names = list(required)
    for name in props:
        if name not in names and rng.random() < 0.55:
            names.append(name)
    for pattern in patterns:
        if rng.random() < 0.5:
            names.append(key_for_pattern(rng, pattern, True))
    if additional is not False and rng.random() < 0.35:
        names.append(rng.choice(["zz", "extra", "q"]))
    deps = schema.get("dependencies", {})
    for _ in range(2):
        for name in list(names):
            dep = deps.get(name)
            if isinstance(dep, list):
                for extra in dep:
                    if extra not in names:
                        names.append(extra)
    lo = schema.get("minProperties", 0)
    filler = ["a", "b", "c", "foo", "bar", "zz", "q", "ab", "x_a"]
    while len(set(names)) < min(lo, 8) and filler:
        names.append(filler.pop(0))
    hi = schema.get("maxProperties")
    if hi is not None:
        keep = [n for n in names if n in required]
        rest = [n for n in dict.fromkeys(names) if n not in required]
        names = (keep + rest)[: max(hi, len(keep))]
    for name in dict.fromkeys(names):
        subs = []
        if name in props:
            subs.append(props[name])
        for pattern, sub in patterns.items():
            if re.search(pattern, name):
                subs.append(sub)
        if not subs:
            subs.append(additional)
        if len(subs) == 1:
            out[name] = satisfy_once(rng, subs[0], root, depth + 1)
        else:
            out[name] = satisfy_once(rng, {"allOf": subs}, root, depth + 1)
    return out


_PAD_CHARS = ["a", "é", "\U0001F600", "e\u0301"[1], "日"]


def _int_size(schema, key):
    val = schema.get(key)
    if isinstance(val, bool) or not isinstance(val, (int, float)) or val != val or abs(val) > 300:
        return None
    return int(val) if val == int(val) else None


def boundary_probes(rng, schema, root, depth=0, limit=10):
    """Values sitting exactly on, and one step off, every size / presence boundary the schema states: the
    cases in which one keyword alone decides (`len == max`, `len == max + 1`, a required member taken away, one
    item past the tuple, the only `contains` witness removed, one duplicate added)."""
    schema = _deref(schema, root)
    if not isinstance(schema, dict) or depth > 2:
        return []
    out = []

    def base_of(kind):
        spec = {k: v for k, v in schema.items() if k not in ("anyOf", "oneOf", "allOf", "not", "const", "enum")}
        spec["type"] = kind
        try:
            return satisfy_once(rng, spec, root, depth + 1)
        except (RecursionError, KeyError, IndexError, TypeError, ValueError):
            return None

    lo, hi = _int_size(schema, "minLength"), _int_size(schema, "maxLength")
    if lo is not None or hi is not None:
        pad = rng.choice(_PAD_CHARS)
        for size in {n for n in (lo, (lo or 0) - 1, hi, None if hi is None else hi + 1) if n is not None and n >= 0}:
            out.append(pad * size)
            seed = base_of("string")
            if isinstance(seed, str):
                out.append((seed + pad * size)[:size] if len(seed) != size else seed)
    lo, hi = _int_size(schema, "minItems"), _int_size(schema, "maxItems")
    tuple_len = len(schema["items"]) if isinstance(schema.get("items"), list) else None
    sizes = {n for n in (lo, (lo or 0) - 1, hi, None if hi is None else hi + 1) if n is not None and n >= 0}
    if tuple_len is not None:
        sizes |= {tuple_len, tuple_len + 1, max(0, tuple_len - 1)}
    for size in sorted(sizes)[:6]:
        spec = {k: v for k, v in schema.items() if k in ("items", "additionalItems")}
        if spec.get("additionalItems") is False and tuple_len is not None and size > tuple_len:
            spec["additionalItems"] = True
        spec.update({"type": "array", "minItems": size, "maxItems": size})
        try:
            arr = _satisfy_array(rng, spec, root, depth + 1)
        except (RecursionError, KeyError, IndexError, TypeError, ValueError):
            continue
        while len(arr) < size:
            arr.append(len(arr) if schema.get("uniqueItems") else (copy.deepcopy(arr[-1]) if arr else 0))
        out.append(arr[:size])
    if any(key in schema for key in ("uniqueItems", "contains")):
        seed = base_of("array")
        if isinstance(seed, list):
            if schema.get("uniqueItems") and seed:
                member = rng.choice(seed)
                out.append(seed + [copy.deepcopy(member)])
                out.append(seed + [lookalike(rng, copy.deepcopy(member))])
            if "contains" in schema:
                try:
                    kept = [m for m in seed if not refmodel.valid(schema["contains"], m, root)]
                    out.append(kept)
                    out.append(kept + [satisfy_once(rng, schema["contains"], root, depth + 1)])
                except Exception:  # pylint: disable=broad-except
                    pass
    obj_keys = ("required", "minProperties", "maxProperties", "propertyNames", "dependencies")
    if any(key in schema for key in obj_keys):
        seed = base_of("object")
        if isinstance(seed, dict):
            for name in list(schema.get("required") or [])[:4]:
                if isinstance(name, str) and name in seed:
                    out.append({k: v for k, v in seed.items() if k != name})
            lo, hi = _int_size(schema, "minProperties"), _int_size(schema, "maxProperties")
            for size in {n for n in (lo, (lo or 0) - 1, hi, None if hi is None else hi + 1) if n is not None and n >= 0}:
                obj = dict(list(seed.items())[:size])
                extra = 0
                while len(obj) < size and extra < 300:
                    obj.setdefault("k%d" % extra, extra)
                    extra += 1
                out.append(obj)
    if isinstance(schema.get("propertyNames"), (dict, bool)) or schema.get("additionalProperties") is False:
        seed = base_of("object")
        if isinstance(seed, dict):
            for key in rng.sample(["", "a", "ab", "abcdefghij", "A", "1", "zz", "x_a", "é", "a b", "k" * 12], 4):
                if key not in seed:
                    out.append({**copy.deepcopy(seed), key: rng.choice([0, "a", None, True])})
    if isinstance(schema.get("dependencies"), dict):
        seed = base_of("object")
        if isinstance(seed, dict):
            for key, dep in list(schema["dependencies"].items())[:3]:
                if isinstance(dep, list) and dep:
                    full = copy.deepcopy(seed)
                    full.setdefault(key, 1)
                    for name in dep:
                        if isinstance(name, str):
                            full.setdefault(name, 1)
                    out.append(full)
                    gone = rng.choice([name for name in dep if isinstance(name, str)] or [key])
                    out.append({k: v for k, v in full.items() if k != gone})
    if isinstance(schema.get("properties"), dict) and depth < 2:
        # the same one level down, inside an otherwise valid object
        names = [n for n in schema["properties"] if isinstance(_deref(schema["properties"][n], root), dict)]
        rng.shuffle(names)
        for name in names[:3]:
            inner = boundary_probes(rng, schema["properties"][name], root, depth + 1, limit=3)
            seed = base_of("object") if inner else None
            for probe in inner:
                if isinstance(seed, dict):
                    out.append({**copy.deepcopy(seed), name: probe})
    if isinstance(schema.get("items"), dict) and depth < 2:
        for probe in boundary_probes(rng, schema["items"], root, depth + 1, limit=3):
            out.append([probe])
    if len(out) > limit:
        out = rng.sample(out, limit)
    return out


def satisfy(rng, schema, root, tries=4, dev_kwargs=None):
    """Try to produce a valid value; the model decides, the solver only proposes."""
    last = None
    for _ in range(tries):
        try:
            cand = satisfy_once(rng, schema, root)
        except (RecursionError, KeyError, IndexError, TypeError, ValueError):
            cand = random_value(rng, 1)
        last = cand
        try:
            if refmodel.valid(schema, cand, root, refmodel.Dev(waiver=True, curated=CURATED)):
                return cand
        except Exception:  # pylint: disable=broad-except
            pass
    return last


def mutate(rng, value, keys=None):
    """One-point mutation of a value (aimed at boundaries next to a valid value)."""
    keys = keys or ["a", "b", "zz", "foo", "class", "x_a"]
    if isinstance(value, dict):
        roll = rng.random()
        if value and roll < 0.3:
            out = dict(value)
            out.pop(rng.choice(sorted(out)))
            return out
        if roll < 0.55:
            out = dict(value)
            out[rng.choice(keys)] = random_value(rng, 1)
            return out
        if value:
            key = rng.choice(sorted(value))
            out = dict(value)
            out[key] = mutate(rng, value[key], keys)
            return out
        return {rng.choice(keys): random_value(rng, 1)}
    if isinstance(value, list):
        roll = rng.random()
        if value and roll < 0.2:
            out = list(value)
            out.pop(rng.randrange(len(out)))
            return out
        if roll < 0.4:
            out = list(value)
            out.insert(rng.randint(0, len(out)), random_value(rng, 1))
            return out
        if value and roll < 0.55:
            out = list(value)
            out.append(copy.deepcopy(rng.choice(out)))
            return out
        if value and roll < 0.65:
            out = list(value)
            out.append(lookalike(rng, rng.choice(out)))
            return out
        if value:
            idx = rng.randrange(len(value))
            out = list(value)
            out[idx] = mutate(rng, value[idx], keys)
            return out
        return [random_value(rng, 1)]
    if isinstance(value, bool):
        return rng.choice([not value, int(value), None])
    if isinstance(value, (int, float)):
        try:
            out = rng.choice(
                [value + 1, value - 1, value + 0.5, value * 2, -value, float(value),
                 int(value) if value == int(value) else value, str(value), None,
                 value * 2 ** 60, value * 2 ** 60 + 1, 1e308, -1e308, 2 ** 53 + 1]
            )
        except (OverflowError, ValueError):
            return value
        if isinstance(out, float) and (out != out or out in (float("inf"), float("-inf"))):
            return value
        return out
    if isinstance(value, str):
        return rng.choice(
            [value + "a", value[:-1], value + value, "a" + value, value.upper(), "", 0, None, [value], value + "\n"]
        )
    return random_value(rng, 1)


def permuted_objects(rng, literal):
    """For a literal holding an object with 2+ members: the same object written in another member order (equal
    in JSON), and that order with two values exchanged (not equal) - what a comparison pairing `.values()` by
    position gets wrong in both directions."""
    out = []

    def visit(node, rebuild):
        if isinstance(node, dict):
            if len(node) >= 2:
                keys = list(node)
                turned = keys[1:] + keys[:1] if rng.random() < 0.5 else keys[::-1]
                out.append(rebuild({key: copy.deepcopy(node[key]) for key in turned}))
                first, second = turned[0], turned[1]
                if not refmodel.json_eq(node[first], node[second]):
                    swapped = {key: copy.deepcopy(node[key]) for key in turned}
                    swapped[first], swapped[second] = swapped[second], swapped[first]
                    out.append(rebuild(swapped))
            for key, val in node.items():
                visit(val, lambda new, key=key, node=node: rebuild({**copy.deepcopy(node), key: new}))
        elif isinstance(node, list):
            for idx, val in enumerate(node[:4]):
                visit(val, lambda new, idx=idx, node=node: rebuild(copy.deepcopy(node[:idx]) + [new] +
                                                                    copy.deepcopy(node[idx + 1:])))

    visit(literal, lambda new: new)
    return out[:6]


def batch_for_schema(rng, schema, root=None, count=8, lookalikes=True, boundaries=True):
    """Mixed batch: valid-by-construction attempts, their one-point mutants,
    lookalike swaps and unconstrained values."""
    root = schema if root is None else root
    out = []
    seeds = []
    for _ in range(max(1, count // 3)):
        val = satisfy(rng, schema, root)
        seeds.append(val)
        out.append(val)
    while len(out) < count:
        roll = rng.random()
        base = rng.choice(seeds)
        if roll < 0.45:
            out.append(mutate(rng, copy.deepcopy(base)))
        elif roll < 0.65 and lookalikes:
            out.append(lookalike(rng, copy.deepcopy(base)))
        elif roll < 0.8:
            out.append(satisfy(rng, schema, root, tries=2))
        else:
            out.append(random_value(rng, 2))
    if isinstance(schema, dict):
        for literal in ([schema["const"]] if "const" in schema else []) + list(schema.get("enum") or [])[:2]:
            if isinstance(literal, (list, dict)) and literal:
                out.append(deep_lookalike(copy.deepcopy(literal)))
                out += permuted_objects(rng, literal)
    if isinstance(schema, dict):
        # a value that happens to EQUAL a declared default is a value like any other (passed explicitly, it
        # is validated; only an omitted one is forgiven)
        if "default" in schema:
            out.append(copy.deepcopy(schema["default"]))
        props = schema.get("properties") if isinstance(schema.get("properties"), dict) else {}
        for name, sub in list(props.items())[:6]:
            sub = _deref(sub, root)
            if isinstance(sub, dict) and "default" in sub and isinstance(name, str):
                base = next((copy.deepcopy(seed) for seed in seeds if isinstance(seed, dict)), {})
                base[name] = copy.deepcopy(sub["default"])
                out.append(base)
        items = _deref(schema.get("items"), root) if isinstance(schema.get("items"), dict) else None
        if isinstance(items, dict) and "default" in items:
            out.append([copy.deepcopy(items["default"])])
    if isinstance(schema, dict) and isinstance(schema.get("dependencies"), dict):
        # dependency probes: an otherwise valid object plus the triggering member (decisive for a dependency
        # whose value is `false`, an empty list, or a schema)
        for key in list(schema["dependencies"])[:3]:
            base = next((copy.deepcopy(seed) for seed in seeds if isinstance(seed, dict)), {})
            if key not in base:
                props = schema.get("properties") if isinstance(schema.get("properties"), dict) else {}
                try:
                    base[key] = satisfy(rng, props.get(key, True), root, tries=2)
                except Exception:  # pylint: disable=broad-except
                    base[key] = 1
            out.append(base)
    if isinstance(schema, dict) and isinstance(schema.get("properties"), dict):
        # a member whose name is canonically equivalent to a declared one, but not the same string
        import unicodedata  # pylint: disable=import-outside-toplevel

        for name in list(schema["properties"])[:6]:
            if not isinstance(name, str):
                continue
            for form in ("NFD", "NFC"):
                other = unicodedata.normalize(form, name)
                if other != name:
                    base = next((copy.deepcopy(seed) for seed in seeds if isinstance(seed, dict)), {})
                    base[other] = rng.choice([1, "x", None])
                    out.append(base)
                    twin = dict(base)
                    twin.pop(name, None)
                    out.append(twin)
    if boundaries:
        try:
            out += boundary_probes(rng, schema, root)
        except (RecursionError, KeyError, IndexError, TypeError, ValueError):
            pass
    if rng.random() < 0.5:
        # a sweep of small numbers / short strings: cheap, and decisive for overlapping compositions
        out += rng.sample([-3, -1, 0, 1, 2, 3, 4, 5, 6, 7, 8, 9, 10, 11, 12, 2.0, 4.5, "a", "ab", "abc", "abab", "b"], k=6)
    return out


# --------------------------------------------------------------------------
# hostile values (C10)


def hostile_scalar(rng):
    roll = rng.randrange(14)
    if roll == 0:
        return rng.choice([10 ** 400, -(10 ** 400), 2 ** 1024, 2 ** 1023, -(2 ** 1024), 10 ** 309])
    if roll == 1:
        return rng.choice([1.7976931348623157e308, -1.7976931348623157e308, 5e-324, -5e-324, -0.0, 1e308, 1e-308])
    if roll == 2:
        return rng.choice([2 ** 53, 2 ** 53 + 1, 2 ** 53 - 1, -(2 ** 53) - 1, 2 ** 63, 2 ** 64 + 1])
    if roll == 3:
        return "\x00" + random_string(rng)
    if roll == 4:
        return rng.choice(["\ud800", "a\udfffb", "\ud83d", "\udc00\ud800"])
    if roll == 5:
        return rng.choice(["\U0001F600", "é", "‮abc", "​", "﻿", "\U0010ffff", " "])
    if roll == 6:
        return "a" * rng.choice([1000, 100000])
    if roll == 7:
        return rng.choice(
            ["9" * 30, "99999999999999999999-01-01", "1" * 400, "0000-00-00T00:00:00Z",
             "2020-01-01T00:00:00+99:99", "10000000000", "1e400", "-1", "12:00:00 99999999999999",
             "2020-13-45", "999999999-12-31T23:59:59Z", "٣", "١٢٣٤-٠١-٠١", "1.1.1.1.1.1.1.1",
             "Sat, 99 Foo 99999", "00000000000000000000000000000000", "{" + "0" * 32 + "}",
             "urn:uuid:" + "f" * 32, "0x" + "f" * 30]
        )
    if roll == 8:
        return rng.choice([float(2 ** 70), 1e22, 1e23, 0.1, 0.30000000000000004, 1 / 3])
    if roll == 9:
        return rng.choice([True, False, None])
    if roll == 10:
        return rng.randint(-(10 ** 30), 10 ** 30)
    if roll == 11:
        return random_string(rng, 12)
    if roll == 12:
        return rng.choice([0, -0.0, 0.0, 1, -1])
    return dyadic(rng)


def nest(value, depth, kind):
    for idx in range(depth):
        use = kind if kind != "mixed" else ("list" if idx % 2 else "dict")
        value = [value] if use == "list" else {"a": value}
    return value


def hostile_value(rng, depth=2):
    roll = rng.random()
    if roll < 0.55 or depth <= 0:
        return hostile_scalar(rng)
    if roll < 0.7:
        return [hostile_value(rng, depth - 1) for _ in range(rng.randint(0, 4))]
    if roll < 0.85:
        keys = ["a", "b", "", "\x00", "\ud800", "__class__", "__dict__", "_dict", "class", "é",
                "a" * 1000, "1", "default", "properties", "{}", "{a}", "{", "%s", "{0}"]
        return {rng.choice(keys): hostile_value(rng, depth - 1) for _ in range(rng.randint(0, 4))}
    if roll < 0.93:
        base = hostile_scalar(rng)
        return [base, copy.deepcopy(base), lookalike(rng, base)]
    return nest(hostile_scalar(rng), rng.choice([5, 20, 60, 120]), rng.choice(["list", "dict", "mixed"]))
