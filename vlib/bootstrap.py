"""Locate the repository under observation, offline third-party deps, sanity.

The code under observation is always ``$VERIF_REPO`` (default ``/repo``): its
working tree is put first on ``sys.path`` and the import is verified to come
from there.  Nothing is built; "rebuild" = fresh interpreter per worker.
"""
import fcntl
import os
import subprocess
import sys

VERIF_DIR = os.path.dirname(os.path.dirname(os.path.abspath(__file__)))
REPO = os.path.abspath(os.environ.get("VERIF_REPO", "/repo"))
DEPS = os.path.join(VERIF_DIR, ".deps")
WHEELS = "/opt/veriftools/wheels"
PYTHON = "/venv/bin/python"
HOOK_GUARD = "STATHAM_VERIF_HOOKS"


class Inconclusive(Exception):
    """The deciding monitor could not observe enough."""


def ensure_deps():
    """Install the second-opinion validator (jsonschema) offline, idempotent."""
    marker = os.path.join(DEPS, ".ok")
    if os.path.exists(marker):
        return True
    os.makedirs(DEPS, exist_ok=True)
    lock = open(os.path.join(DEPS, ".lock"), "w")
    fcntl.flock(lock, fcntl.LOCK_EX)
    try:
        if os.path.exists(marker):
            return True
        env = dict(os.environ, PIP_NO_INDEX="1", PIP_DISABLE_PIP_VERSION_CHECK="1")
        proc = subprocess.run(
            [
                PYTHON, "-m", "pip", "install", "--quiet", "--no-index",
                "--find-links", WHEELS, "--target", DEPS, "--upgrade",
                "jsonschema",
            ],
            env=env, capture_output=True, text=True,
        )
        if proc.returncode != 0:
            sys.stderr.write(proc.stdout + proc.stderr)
            return False
        open(marker, "w").write("ok\n")
        return True
    finally:
        fcntl.flock(lock, fcntl.LOCK_UN)
        lock.close()


def setup_paths():
    """Put the repo first and .deps last on sys.path."""
    if REPO in sys.path:
        sys.path.remove(REPO)
    sys.path.insert(0, REPO)
    if VERIF_DIR not in sys.path:
        sys.path.insert(1, VERIF_DIR)
    if DEPS not in sys.path:
        sys.path.append(DEPS)


def import_statham():
    """Import statham from the repo under observation and verify its origin."""
    setup_paths()
    import statham  # pylint: disable=import-outside-toplevel

    origin = os.path.abspath(statham.__file__)
    if not origin.startswith(REPO + os.sep):
        raise Inconclusive(
            f"statham imported from {origin}, not from {REPO}: refusing to judge"
        )
    return statham


def have_jsonschema():
    setup_paths()
    try:
        import jsonschema  # noqa: F401  pylint: disable=import-outside-toplevel,unused-import

        return True
    except Exception:  # pylint: disable=broad-except
        return False
