"""Client-boundary helpers around the system under test (statham in $VERIF_REPO).

Outcome classes at the boundary: 'ok', 'ValidationError', 'TypeError',
'SchemaParseError' family, 'RecursionError', 'other:<Type>'.
"""
import copy
import json
import os
import warnings

from vlib import bootstrap

bootstrap.import_statham()

# pylint: disable=wrong-import-position
from json_ref_dict import RefDict, materialize  # noqa: E402
from statham.schema import parser as st_parser  # noqa: E402
from statham.schema.constants import NotPassed  # noqa: E402
from statham.schema.elements import (  # noqa: E402
    AllOf, AnyOf, Array, Boolean, CompositionElement, Element, Integer, Not, Nothing, Null,
    Number, Object, OneOf, String,
)
from statham.schema.elements.base import _AnonymousObject  # noqa: E402
from statham.schema.elements.meta import ObjectMeta  # noqa: E402
from statham.schema.exceptions import (  # noqa: E402
    FeatureNotImplementedError, SchemaDefinitionError, SchemaParseError, StathamError,
    ValidationError,
)
from statham.schema.property import Property, _Property, _PropertyDict  # noqa: E402
from statham.serializers import serialize_json, serialize_python  # noqa: E402
from statham.serializers.orderer import get_children, get_object_classes, orderer  # noqa: E402
from statham.titles import title_labeller  # noqa: E402

NAMESPACE = {
    "AllOf": AllOf, "AnyOf": AnyOf, "Array": Array, "Boolean": Boolean, "Element": Element,
    "Integer": Integer, "Not": Not, "Nothing": Nothing, "Null": Null, "Number": Number,
    "Object": Object, "OneOf": OneOf, "String": String, "Property": Property,
    "NotPassed": NotPassed,
}


def outcome_class(exc):
    if exc is None:
        return "ok"
    if isinstance(exc, ValidationError):
        return "ValidationError"
    if isinstance(exc, FeatureNotImplementedError):
        return "FeatureNotImplementedError"
    if isinstance(exc, SchemaParseError):
        return "SchemaParseError"
    if isinstance(exc, TypeError):
        return "TypeError"
    if isinstance(exc, RecursionError):
        return "RecursionError"
    return "other:" + type(exc).__name__


def call(element, value):
    """Call an element at the client boundary -> (outcome class, result, exc)."""
    try:
        with warnings.catch_warnings():
            warnings.simplefilter("ignore")
            result = element(value)
        return "ok", result, None
    except BaseException as exc:  # pylint: disable=broad-except
        if isinstance(exc, (KeyboardInterrupt, SystemExit)):
            raise
        return outcome_class(exc), None, exc


def accepted(outcome):
    return outcome == "ok"


def rejected(outcome):
    return outcome in ("ValidationError", "TypeError")


def add_titles(schema, counter=None, path="Root"):
    """Emulate the labeller for the direct route: every dict gets _x_autotitle
    exactly like json_ref_dict's context labeller would provide one."""
    if isinstance(schema, dict):
        out = {}
        for key, val in schema.items():
            if key in ("const", "enum", "default"):
                out[key] = copy.deepcopy(val)
            elif key in ("properties", "patternProperties", "dependencies", "definitions") and \
                    isinstance(val, dict):
                out[key] = {
                    name: add_titles(sub, counter, _camel(name) or "P") for name, sub in val.items()
                }
            elif isinstance(val, dict):
                out[key] = add_titles(val, counter, path + _camel(key))
            elif isinstance(val, list) and key in ("items", "anyOf", "oneOf", "allOf"):
                out[key] = [add_titles(sub, counter, f"{path}{idx}") for idx, sub in enumerate(val)]
            else:
                out[key] = copy.deepcopy(val)
        out.setdefault("_x_autotitle", path)
        return out
    if isinstance(schema, list):
        return [add_titles(sub, counter, path) for sub in schema]
    return schema


def _camel(text):
    return "".join(ch for ch in str(text).title() if ch.isalnum() and ch.isascii())


def parse_direct(schema):
    """parse_element on a private deep copy, titles supplied."""
    prepared = add_titles(copy.deepcopy(schema)) if isinstance(schema, dict) else schema
    with warnings.catch_warnings():
        warnings.simplefilter("ignore")
        return st_parser.parse_element(prepared)


def parse_file(schema, directory, name="doc.json", pointer=""):
    """Exactly the CLI route: file -> RefDict -> materialize(title_labeller) -> parse."""
    path = os.path.join(directory, name)
    with open(path, "w", encoding="utf8") as handle:
        json.dump(schema, handle)
    uri = path + "#/" + pointer
    try:
        materialized = materialize(RefDict.from_uri(uri), context_labeller=title_labeller())
    finally:
        # json_ref_dict caches documents by URI: every document gets its own
        # file name (callers) and the file is removed as soon as it is loaded.
        try:
            os.remove(path)
        except OSError:
            pass
    return st_parser.parse(materialized)


def materialize_file(path, pointer=""):
    return materialize(RefDict.from_uri(path + "#/" + pointer), context_labeller=title_labeller())


def deref(schema, root=None, depth=0):
    """Inline every local $ref (acyclic documents only)."""
    from vlib import refmodel  # pylint: disable=import-outside-toplevel

    root = schema if root is None else root
    if depth > 60:
        raise RecursionError("cyclic $ref")
    if isinstance(schema, dict):
        if "$ref" in schema:
            return deref(refmodel.resolve_pointer(root, schema["$ref"]), root, depth + 1)
        out = {}
        for key, val in schema.items():
            if key in ("const", "enum", "default"):
                out[key] = copy.deepcopy(val)
            elif key in ("properties", "patternProperties", "definitions", "dependencies") and isinstance(val, dict):
                # by position: a member of a name map is a schema whatever it is called
                out[key] = {name: deref(sub, root, depth + 1) for name, sub in val.items()}
            else:
                out[key] = deref(val, root, depth + 1)
        return out
    if isinstance(schema, list):
        return [deref(sub, root, depth + 1) for sub in schema]
    return schema



def scribble_json(doc, depth=0):
    """Edit a document the library returned, everywhere, in place - as a caller deriving a variant of it would.
    What the library handed out is the caller's; its own elements must not change with it."""
    if depth > 12:
        return
    if isinstance(doc, dict):
        for member in list(doc.values()):
            scribble_json(member, depth + 1)
        doc["scribbled-by-caller"] = [1]
    elif isinstance(doc, list):
        for member in doc:
            scribble_json(member, depth + 1)
        doc.append("scribbled-by-caller")
