#!/usr/bin/env python3
"""Regenerate /verif/MANIFEST.json from the check modules that exist.

Properties without a check module are listed under not_applicable with the
reason given in PENDING below, so the manifest is valid at all times.
"""
import importlib
import json
import os
import sys

HERE = os.path.dirname(os.path.dirname(os.path.abspath(__file__)))
sys.path.insert(0, HERE)

BASELINE_CMD = (
    "cd /repo && /venv/bin/python -m pytest -ra -q -p no:cacheprovider --timeout=900 "
    "--continue-on-collection-errors"
)

PENDING = "runtime monitor for this property is designed (DESIGN.md section 4) but not built yet"

DESIGN_REF = {f"C{n:02d}": f"DESIGN.md section 4, C{n:02d}" for n in range(1, 21)}


def main():
    props = [json.loads(line) for line in open(os.path.join(HERE, "properties.jsonl"))]
    checks = []
    not_applicable = []
    for prop in props:
        pid = prop["id"]
        path = os.path.join(HERE, "vlib", "checks", pid.lower() + ".py")
        if not os.path.exists(path):
            not_applicable.append({"property_id": pid, "reason": PENDING})
            continue
        os.environ.setdefault("VERIF_REPO", "/repo")
        mod = importlib.import_module(f"vlib.checks.{pid.lower()}")
        checks.append(
            {
                "property_id": pid,
                "quick_cmd": f"./check {pid} --tier quick",
                "thorough_cmd": f"./check {pid} --tier thorough",
                "evidence_file": f"evidence/{pid}.json",
                "replay_cmd_template": f"./check {pid} --replay {{path}}",
                "engine": "vlib",
                "level_claimed": {
                    "category": "exploration",
                    "text": getattr(mod, "LEVEL_TEXT", None) or (
                        "Held on the executions produced by this run: " + mod.RULE
                    ),
                    "design_ref": DESIGN_REF[pid],
                },
                "level_note": "; ".join(getattr(mod, "ASSUMPTIONS", [])) or "see DESIGN.md",
                "technique": mod.TECHNIQUE,
            }
        )
    manifest = {
        "version": 1,
        "setup_cmd": "./check --setup",
        "hooks": {
            "guard": "STATHAM_VERIF_HOOKS",
            "enable": (
                "none needed: all instrumentation (boundary recorders, attribute-write logs, "
                "sys.monitoring line hooks, wrappers on internal functions) is installed from the "
                "harness at import time; /repo carries no verification hooks"
            ),
            "baseline_off_cmd": BASELINE_CMD,
            "source_commits": [],
            "add_only": True,
        },
        "engines": [
            {
                "name": "vlib",
                "path": "vlib/",
                "serves_properties": [c["property_id"] for c in checks],
                "kind_free_text": (
                    "runtime monitoring harness: generators drive the real statham code in sharded "
                    "worker processes while reference-model oracles, purity/fingerprint monitors, "
                    "escape monitors and history checkers observe every call"
                ),
            }
        ],
        "checks": checks,
        "not_applicable": not_applicable,
        "notes": (
            "Exit 0 held / 1 VIOLATION / 2 INCONCLUSIVE (deciding monitor under-observed; never folded "
            "into held). Known findings: known_findings.json (open entries print KNOWN-FINDING lines; "
            "fixed entries suppress nothing). Sanitizers proper do not apply: statham is pure Python."
        ),
    }
    with open(os.path.join(HERE, "MANIFEST.json"), "w", encoding="utf8") as handle:
        json.dump(manifest, handle, indent=1)
        handle.write("\n")
    print(f"{len(checks)} checks, {len(not_applicable)} pending")


if __name__ == "__main__":
    main()
