#!/usr/bin/env python3
"""Re-base a seeded patch that no longer applies because a later `fix:` commit touched nearby lines.

  python3 tools/port_seed.py seedC01_5 [...]

For each seed: scratch worktree of /repo HEAD (at the path the seed's demo insists on, if it asserts one),
`git apply --3way`; if that merges cleanly the new diff replaces seeded/<id>/patch.diff after the usual
confirmation (1008 tests pass with the patch, demo exits 0 without / non-zero with it).  Conflicts are
reported and left for manual porting."""
import json
import os
import re
import subprocess
import sys

VERIF = os.path.dirname(os.path.dirname(os.path.abspath(__file__)))
TESTS = ["/venv/bin/python", "-m", "pytest", "-q", "-p", "no:cacheprovider", "--timeout=900",
         "--continue-on-collection-errors"]


def run(cmd, cwd, env=None):
    return subprocess.run(cmd, cwd=cwd, env=env, capture_output=True, text=True, timeout=900)


def main():
    for sid in sys.argv[1:]:
        seed_dir = os.path.join(VERIF, "seeded", sid)
        demo = open(os.path.join(seed_dir, "demo.py"), encoding="utf8").read()
        match = re.search(r'startswith\(\s*"(/tmp/seed\d*/C\d\d)', demo)
        work = match.group(1) if match else "/tmp/port_" + sid
        subprocess.run(["git", "-C", "/repo", "worktree", "remove", "--force", work], capture_output=True)
        os.makedirs(os.path.dirname(work), exist_ok=True)
        subprocess.run(["git", "-C", "/repo", "worktree", "add", "-q", "--detach", work, "HEAD"], check=True)
        try:
            env = dict(os.environ, PYTHONPATH=work)
            clean = run(["/venv/bin/python", os.path.join(seed_dir, "demo.py")], work, env)
            applied = run(["git", "apply", "--3way", os.path.join(seed_dir, "patch.diff")], work)
            status = run(["git", "status", "--porcelain"], work).stdout
            if applied.returncode != 0 or any(line[:2] in ("UU", "AA", "DU", "UD") for line in status.splitlines()):
                print(sid, "CONFLICT", applied.stderr.strip()[-200:])
                continue
            diff = run(["git", "diff", "HEAD", "--", "statham"], work).stdout
            tests = run(TESTS, work).stdout.strip().splitlines()[-1]
            patched = run(["/venv/bin/python", os.path.join(seed_dir, "demo.py")], work, env)
            ok = "1008 passed" in tests and clean.returncode == 0 and patched.returncode != 0
            print(sid, "OK" if ok else "NOT-CONFIRMED", "clean_demo=%d patched_demo=%d" % (clean.returncode, patched.returncode), tests[-60:])
            if ok:
                with open(os.path.join(seed_dir, "patch.diff"), "w", encoding="utf8") as handle:
                    handle.write(diff)
                meta_path = os.path.join(seed_dir, "meta.json")
                meta = json.load(open(meta_path))
                head = run(["git", "-C", "/repo", "log", "--format=%h", "-1"], "/repo").stdout.strip()
                meta["ported"] = (meta.get("ported", "") + f" | re-based with `git apply --3way` onto {head} (a later fix: commit "
                                  "touched nearby lines); tests and demo re-confirmed").strip(" |")
                json.dump(meta, open(meta_path, "w"), indent=1, ensure_ascii=False)
        finally:
            subprocess.run(["git", "-C", "/repo", "worktree", "remove", "--force", work], capture_output=True)
            subprocess.run(["git", "-C", "/repo", "worktree", "prune"], capture_output=True)


if __name__ == "__main__":
    main()
