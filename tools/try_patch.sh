#!/bin/sh
# tools/try_patch.sh <patch.diff> <check id>...   - apply a patch to a scratch worktree of /repo,
# run the repository's own tests there, then the given quick checks with VERIF_REPO=<scratch>.
# Prints one line per step; removes the worktree afterwards.
PATCH="$(realpath "$1")"; shift
TIER="${TIER:-quick}"
WT="$(mktemp -d /tmp/mutwt.XXXXXX)"; rmdir "$WT"
git -C /repo worktree add -q --detach "$WT" HEAD || exit 2
cd "$WT" || exit 2
if ! git apply "$PATCH" 2>/tmp/apply.err; then echo "APPLY-FAILED $(head -c 300 /tmp/apply.err)"; cd /; git -C /repo worktree remove --force "$WT"; exit 2; fi
tests=$(/venv/bin/python -m pytest -q -p no:cacheprovider --timeout=900 --continue-on-collection-errors 2>&1 | tail -1)
echo "TESTS: $tests"
cd /verif || exit 2
for id in "$@"; do
  out=$(VERIF_REPO="$WT" ./check "$id" --tier "$TIER" 2>&1); code=$?
  echo "CHECK $id exit=$code $(echo "$out" | grep -E '^RESULT' | cut -c1-160)"
  echo "$out" | grep -E '^  kind' | head -3 | cut -c1-300
done
cd /; git -C /repo worktree remove --force "$WT"; git -C /repo worktree prune
