#!/usr/bin/env python3
"""Show replay files compactly: tools/show.py replays/C01/*.json"""
import json, sys
for f in sys.argv[1:]:
    b = json.load(open(f))
    print(f, b['kind'], 'finding=', b.get('finding'))
    print('   ', b['detail'][:600])
    print('   ', json.dumps(b['case'])[:1800])
