#!/usr/bin/env python3
"""Confirm sub-agent seeded changes and import them into /verif/seeded/<id>/.

For each /tmp/seed/Cxx/seedCxx_k/{patch.diff,demo.py,README.md}: in a fresh scratch worktree of /repo
HEAD (a) demo.py passes without the patch, (b) the patch applies, (c) the repository's own test-suite
still gives 1008 passed, (d) demo.py fails with the patch.  Only then is it copied.
"""
import glob
import json
import os
import re
import shutil
import subprocess
import sys
import tempfile

SRC = sys.argv[1] if len(sys.argv) > 1 else "/tmp/seed"
DST = "/verif/seeded"


def run(cmd, cwd, env=None, timeout=600):
    return subprocess.run(cmd, cwd=cwd, env=env, capture_output=True, text=True, timeout=timeout)


def main():
    os.makedirs(DST, exist_ok=True)
    for seed_dir in sorted(glob.glob(os.path.join(SRC, "C*", "seedC*_*"))):
        sid = os.path.basename(seed_dir)
        if os.path.exists(os.path.join(DST, sid, "meta.json")):
            continue
        patch = os.path.join(seed_dir, "patch.diff")
        demo = os.path.join(seed_dir, "demo.py")
        if not (os.path.exists(patch) and os.path.exists(demo)):
            print(sid, "incomplete")
            continue
        # verify inside the seed's own scratch worktree (demos may assert their location)
        work = os.path.dirname(seed_dir)
        run(["git", "checkout", "--", "."], work)
        head = run(["git", "-C", "/repo", "rev-parse", "HEAD"], "/").stdout.strip()
        if run(["git", "rev-parse", "HEAD"], work).stdout.strip() != head:
            # /repo moved on (a new fix: commit) since the scratch worktree was made: bring it up to date
            run(["git", "checkout", "-q", "--detach", head], work)
        try:
            demo_cmd = ["/venv/bin/python", demo]  # run in place (demos may locate the tree relative to themselves)
            env = dict(os.environ, PYTHONPATH=work, PYTHONHASHSEED=os.environ.get("PYTHONHASHSEED", "0"))
            env.pop("PYTHONHASHSEED")
            clean = run(demo_cmd, work, env)
            applied = run(["git", "apply", patch], work)
            if applied.returncode != 0:
                print(sid, "REJECT patch does not apply:", applied.stderr[:200])
                continue
            tests = run(["/venv/bin/python", "-m", "pytest", "-q", "-p", "no:cacheprovider", "--timeout=900",
                         "--continue-on-collection-errors"], work)
            tail = tests.stdout.strip().splitlines()[-1] if tests.stdout.strip() else ""
            passed = re.search(r"(\d+) passed", tail)
            broken = run(demo_cmd, work, env)
            ok = clean.returncode == 0 and broken.returncode != 0 and passed and int(passed.group(1)) == 1008 \
                and not re.search(r"\b\d+ failed", tail)
            print(sid, "OK" if ok else "REJECT", f"clean_demo={clean.returncode} patched_demo={broken.returncode}", tail[-70:])
            if not ok:
                continue
            out = os.path.join(DST, sid)
            os.makedirs(out, exist_ok=True)
            shutil.copy(patch, os.path.join(out, "patch.diff"))
            shutil.copy(demo, os.path.join(out, "demo.py"))
            readme = os.path.join(seed_dir, "README.md")
            needs = open(readme, encoding="utf8").read() if os.path.exists(readme) else ""
            if needs:
                shutil.copy(readme, os.path.join(out, "README.md"))
            files = re.findall(r"^diff --git a/(\S+)", open(patch).read(), re.M)
            meta = {
                "id": sid,
                "breaks": [sid[4:7]],
                "files_changed": files,
                "needs": needs[:1500],
                "confirmed": {
                    "repo_head": run(["git", "-C", "/repo", "rev-parse", "--short", "HEAD"], "/").stdout.strip(),
                    "tests_with_patch": tail[-80:],
                    "demo_exit_without_patch": clean.returncode,
                    "demo_exit_with_patch": broken.returncode,
                    "demo_output_with_patch": (broken.stdout + broken.stderr)[-600:],
                },
                "source": "independent sub-agent given only the property text and a scratch worktree",
            }
            json.dump(meta, open(os.path.join(out, "meta.json"), "w"), indent=1)
        finally:
            run(["git", "checkout", "--", "."], work)
            try:
                os.remove(os.path.join(work, "demo_seed.py"))
            except OSError:
                pass


if __name__ == "__main__":
    main()
