#!/bin/sh
# tools/run_all.sh [quick|thorough] [seed]  - run every registered check against /repo, summarise
cd "$(dirname "$0")/.." || exit 2
TIER="${1:-quick}"; SEED="${2:-0}"
rc=0
for id in $(python3 -c "import json;print(' '.join(c['property_id'] for c in json.load(open('MANIFEST.json'))['checks']))"); do
  out=$(VERIF_SEED=$SEED ./check "$id" --tier "$TIER" 2>&1); code=$?
  echo "$out" | grep -E "^(RESULT|VIOLATION|INCONCLUSIVE)" | cut -c1-300
  [ $code -ne 0 ] && rc=1
done
exit $rc
